//go:build verif

package main

// Driver for the Pool family (C05): replays TLC-emitted add/remove/dispatch
// sequences, long random sequences and racing goroutines on a real
// RoundRobinBackend with Backend doubles, and writes the trace that
// Trace_Pool.tla judges.

import (
	"bufio"
	"bytes"
	"encoding/json"
	"fmt"
	"runtime"
	"sync"
	"sync/atomic"
	"testing"
	"time"
)

type vfPoolOp struct {
	Op string `json:"op"`
	A  string `json:"a"`
}

type vfPoolRun struct {
	tr     *vfTrace
	cur    *RoundRobinBackend
	msg    *Message
	nstuck int
}

func (r *vfPoolRun) hook(ev string, kv ...interface{}) {
	if len(kv) == 0 {
		return
	}
	rb, ok := kv[0].(*RoundRobinBackend)
	if !ok || rb != r.cur {
		return
	}
	switch ev {
	case "rr.add":
		r.tr.Emit(vfM{"ev": "add", "a": kv[1], "len": kv[2]})
	case "rr.rm":
		r.tr.Emit(vfM{"ev": "rm", "a": kv[1], "len": kv[2]})
	case "rr.next":
		r.tr.Emit(vfM{"ev": "next", "g": vfGid(), "idx": kv[1], "n": kv[2]})
	case "rr.cnt":
		r.tr.Emit(vfM{"ev": "cnt", "g": vfGid(), "n": kv[1]})
	case "rr.get":
		r.tr.Emit(vfM{"ev": "get", "g": vfGid(), "i": kv[1], "n": kv[2], "a": kv[3]})
	}
}

func (r *vfPoolRun) double(addr string) *vfBackend {
	return &vfBackend{addr: addr, onSend: func(b *vfBackend, raw []byte) {
		r.tr.Emit(vfM{"ev": "recv", "g": vfGid(), "a": b.addr})
	}}
}

func (r *vfPoolRun) dispatch(seq bool) {
	g := vfGid()
	r.tr.Emit(vfM{"ev": "begin", "g": g})
	var err error
	if pm := vfCatch(func() { err = r.cur.Send(r.msg) }); pm != "" {
		r.tr.Emit(vfM{"ev": "panic", "g": g, "msg": pm})
		return
	}
	idx := -1
	if seq {
		idx = r.cur.index
	}
	r.tr.Emit(vfM{"ev": "ret", "g": g, "ok": err == nil, "idx": idx})
}

func (r *vfPoolRun) sequential(caseID string, ops []vfPoolOp) {
	if r.nstuck >= 3 {
		return // the pool implementation wedges: the cases run so far carry the verdict
	}
	r.cur = NewRoundRobinBackend()
	r.tr.Emit(vfM{"ev": "reset", "case": caseID, "seq": true})
	for _, op := range ops {
		op := op
		pm, stuck := vfWithin(20*time.Second, func() {
			switch op.Op {
			case "add":
				r.cur.AddBackend(r.double(op.A))
			case "rm":
				r.cur.RemoveBackend(op.A)
			case "disp":
				r.dispatch(true)
			}
		})
		if stuck {
			r.nstuck++
			r.tr.Emit(vfM{"ev": "stuck", "op": op.Op})
			return
		}
		if pm != "" {
			r.tr.Emit(vfM{"ev": "panic", "g": 0, "msg": pm})
			return
		}
	}
}

func TestVfPool(t *testing.T) {
	tr := vfOpenTrace(t, "VERIF_TRACE")
	defer tr.Close()
	msg, err := NewRequest("OPTIONS", "sip:svc@example.com", "SIP/2.0")
	if err != nil {
		t.Fatal(err)
	}
	msg.AddHeader("Content-Length", "0")
	r := &vfPoolRun{tr: tr, msg: msg}
	vfSetHook(r.hook)
	defer vfSetHook(nil)
	cases := 0

	// (1) leg R: every behaviour TLC emitted
	if in := vfEnv("VERIF_IN", ""); in != "" {
		stride := vfEnvInt("VERIF_STRIDE", 1)
		k := 0
		vfReadBehaviours(t, in, func(raw []byte) {
			k++
			if stride > 1 && (int64(k)+vfSeed())%int64(stride) != 0 {
				return
			}
			var ops []vfPoolOp
			if err := json.Unmarshal(raw, &ops); err != nil {
				t.Fatalf("bad behaviour: %v", err)
			}
			r.sequential(fmt.Sprintf("tlc%d", k), ops)
			cases++
		})
	}

	// (2) long random sequences beyond the model-checking bound
	nrand := vfEnvInt("VERIF_NRAND", 20)
	rnd := vfRand(5)
	addrs := []string{"10.0.0.1:5060", "10.0.0.2:5060", "10.0.0.3:5060", "10.0.0.4:5060", "10.0.0.5:5060"}
	for i := 0; i < nrand; i++ {
		present := map[string]bool{}
		n := 50 + rnd.Intn(351)
		ops := make([]vfPoolOp, 0, n)
		for j := 0; j < n; j++ {
			x := rnd.Intn(10)
			a := addrs[rnd.Intn(len(addrs))]
			switch {
			case x < 2 && !present[a]:
				ops = append(ops, vfPoolOp{"add", a})
				present[a] = true
			case x < 3 && present[a]:
				ops = append(ops, vfPoolOp{"rm", a})
				delete(present, a)
			default:
				ops = append(ops, vfPoolOp{"disp", ""})
			}
		}
		r.sequential(fmt.Sprintf("rand%d", i), ops)
		cases++
	}

	// (2b) the same sequential histories over REAL UDP backends (NewUDPBackend: sockets, Close on removal) instead of doubles:
	// every backend is a loopback sink, receipt is observed at the sink behind the send (loopback: queued before sendto returns)
	{
		g := &vfGamma{base: vfIPBase(), rnd: vfRand(55)}
		raddr := []string{g.ip("10.0.4.1") + ":5060", g.ip("10.0.4.2") + ":5060", g.ip("10.0.4.3") + ":5060", g.ip("10.0.4.4") + ":5060"}
		sinks := map[string]*vfSink{}
		for i, a := range raddr {
			sinks[a] = vfAllSinks.get(t, g.ip(fmt.Sprintf("10.0.4.%d", i+1)), 5060)
		}
		local := g.ip("10.0.0.1") + ":0"
		nreal := vfEnvInt("VERIF_NREAL", 12)
		for i := 0; i < nreal; i++ {
			r.cur = NewRoundRobinBackend()
			tr.Emit(vfM{"ev": "reset", "case": fmt.Sprintf("realudp%d", i), "seq": true})
			present := map[string]bool{}
			n := 10 + rnd.Intn(30)
			for k := 0; k < n; k++ {
				a := raddr[rnd.Intn(len(raddr))]
				x := rnd.Intn(10)
				var pm string
				switch {
				case x < 3 && !present[a]:
					pm = vfCatch(func() {
						b, err := NewUDPBackend(local, a)
						if err != nil {
							t.Fatalf("VF-INFRA NewUDPBackend: %v", err)
						}
						r.cur.AddBackend(b)
					})
					present[a] = true
				case x < 5 && present[a]:
					pm = vfCatch(func() { r.cur.RemoveBackend(a) })
					delete(present, a)
				default:
					gid := vfGid()
					vfAllSinks.pollAll()
					tr.Emit(vfM{"ev": "begin", "g": gid})
					var err error
					pm = vfCatch(func() { err = r.cur.Send(r.msg) })
					if pm == "" {
						for a2, sk := range sinks {
							for range sk.poll() {
								tr.Emit(vfM{"ev": "recv", "g": gid, "a": a2})
							}
						}
						tr.Emit(vfM{"ev": "ret", "g": gid, "ok": err == nil, "idx": r.cur.index})
					}
				}
				if pm != "" {
					tr.Emit(vfM{"ev": "panic", "g": 0, "msg": pm})
					break
				}
			}
			for a := range present { // close what is left
				r.cur.RemoveBackend(a)
			}
			cases++
		}
	}

	// (3) dispatches racing with membership changes made from another thread
	nconc := vfEnvInt("VERIF_NCONC", 4)
	for i := 0; i < nconc && r.nstuck < 3; i++ {
		procs := []int{1, 2, 4, 16}[i%4]
		old := runtime.GOMAXPROCS(procs)
		r.cur = NewRoundRobinBackend()
		tr.Emit(vfM{"ev": "reset", "case": fmt.Sprintf("conc%d-p%d", i, procs), "seq": false})
		var wg sync.WaitGroup
		stop := make(chan struct{})
		nd := 2 + rnd.Intn(3)
		per := vfEnvInt("VERIF_CONC_DISP", 300)
		seeds := make([]int64, nd+1)
		for j := range seeds {
			seeds[j] = rnd.Int63()
		}
		wg.Add(1)
		go func() { // membership thread
			defer wg.Done()
			lr := vfRand(seeds[nd])
			present := map[string]bool{}
			for {
				select {
				case <-stop:
					return
				default:
				}
				a := addrs[lr.Intn(3)]
				// a panic of a membership operation is an observation, like one of a dispatch
				if pm := vfCatch(func() {
					if present[a] {
						r.cur.RemoveBackend(a)
						delete(present, a)
					} else {
						r.cur.AddBackend(r.double(a))
						present[a] = true
					}
				}); pm != "" {
					tr.Emit(vfM{"ev": "panic", "g": vfGid(), "msg": pm})
					return
				}
				for k := lr.Intn(4); k > 0; k-- {
					runtime.Gosched()
				}
			}
		}()
		var dg sync.WaitGroup
		for j := 0; j < nd; j++ {
			dg.Add(1)
			go func(j int) {
				defer dg.Done()
				lr := vfRand(seeds[j])
				for k := 0; k < per; k++ {
					r.dispatch(false)
					if lr.Intn(3) == 0 {
						runtime.Gosched()
					}
				}
			}(j)
		}
		if _, stuck := vfWithin(90*time.Second, func() {
			dg.Wait()
			close(stop)
			wg.Wait()
		}); stuck {
			tr.Emit(vfM{"ev": "stuck", "op": "concurrent"})
			r.nstuck = 3
		}
		runtime.GOMAXPROCS(old)
		cases++
	}
	// (4) the pool as the proxy uses it: a real Proxy is its change listener and dispatches on its message loop, while
	// another thread adds and removes backends (what the resolver callback does).  Every membership change must come
	// back and the loop must still dispatch afterwards (rr.* hooks are not logged here: r.cur stays nil).
	r.cur = nil
	for i := 0; i < vfEnvInt("VERIF_NLOOP", 2) && r.nstuck < 3; i++ {
		tr.Emit(vfM{"ev": "reset", "case": fmt.Sprintf("loop%d", i), "seq": false})
		la := "127.0.0.1"
		slr := NewSelfLearnRoute()
		p := NewProxy("svc.example.com", 1200, la, false, NewPreConfigRoute(), NewPreConfigHostResolver(), slr, true, false)
		rb := NewRoundRobinBackend()
		ust, err := NewUDPServerTransport(la, vfFreePort(t, la), true, slr) // the listener the requests are said to come in on (not started)
		if err != nil {
			t.Fatalf("VF-INFRA %v", err)
		}
		p.AddItem(&ProxyItem{transports: []ServerTransport{ust}, backend: rb, msgHandler: p})
		var delivered int64
		mk := func(a string) *vfBackend {
			return &vfBackend{addr: a, onSend: func(b *vfBackend, raw []byte) { atomic.AddInt64(&delivered, 1) }}
		}
		rb.AddBackend(mk(addrs[0]))
		raw := []byte("OPTIONS sip:svc.example.com SIP/2.0\r\nVia: SIP/2.0/UDP 10.9.9.9:5062;branch=z9hG4bKloop\r\nMax-Forwards: 70\r\nFrom: <sip:a@a.example>;tag=1\r\nTo: <sip:svc.example.com>\r\nCall-ID: loop\r\nCSeq: 1 OPTIONS\r\nContent-Length: 0\r\n\r\n")
		inject := func() {
			msg, err := ParseMessage(bufio.NewReaderSize(bytes.NewBuffer(raw), len(raw)))
			if err != nil {
				t.Fatalf("VF-INFRA %v", err)
			}
			p.HandleRawMessage(NewRawMessage("10.9.9.9", 5062, ust, false, msg))
		}
		stop := make(chan struct{})
		var wg sync.WaitGroup
		wg.Add(1)
		go func() { // traffic
			defer wg.Done()
			for k := 0; ; k++ {
				select {
				case <-stop:
					return
				default:
				}
				if _, stuck := vfWithin(20*time.Second, inject); stuck {
					return // the loop's queue is full and nothing drains it: seen as stuck below
				}
				if k%8 == 0 {
					runtime.Gosched()
				}
			}
		}()
		lr := vfRand(int64(400 + i))
		stuckOp := ""
		present := map[string]bool{}
		for k := 0; k < 300 && stuckOp == ""; k++ {
			a := addrs[1+lr.Intn(3)]
			op := "add"
			if present[a] {
				op = "rm"
			}
			pm, stuck := vfWithin(20*time.Second, func() {
				if op == "add" {
					rb.AddBackend(mk(a))
				} else {
					rb.RemoveBackend(a)
				}
			})
			if stuck {
				stuckOp = op
			}
			if pm != "" {
				tr.Emit(vfM{"ev": "panic", "g": 0, "msg": pm})
				break
			}
			present[a] = !present[a]
			time.Sleep(time.Duration(lr.Intn(300)) * time.Microsecond)
		}
		close(stop)
		if stuckOp == "" {
			// afterwards a dispatch still goes through
			wg.Wait()
			before := atomic.LoadInt64(&delivered)
			inject()
			for end := time.Now().Add(20 * time.Second); atomic.LoadInt64(&delivered) == before && time.Now().Before(end); {
				time.Sleep(time.Millisecond)
			}
			if atomic.LoadInt64(&delivered) == before {
				stuckOp = "dispatch-after-churn"
			}
		}
		if stuckOp != "" {
			r.nstuck = 3
			tr.Emit(vfM{"ev": "stuck", "op": "loop-" + stuckOp})
		}
		cases++
	}
	fmt.Printf("VF cases=%d events=%d\n", cases, tr.n)
}
