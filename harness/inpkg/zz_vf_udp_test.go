//go:build verif

package main

// Driver for C10: datagram sequences (the class sequences emitted by TLC from
// MC_UdpBuf, and random mixed ones: 20 B - 60 KiB, cut at any offset,
// over/under-declared Content-Length) sent back-to-back from one or several
// sockets to a real UDPServerTransport on loopback, so that receive buffers are
// recycled in every order.  A recording handler keeps the *Message pointers and
// serialises them only after the whole burst.  Every body byte encodes the
// datagram it was generated for.

import (
	"encoding/json"
	"fmt"
	"math/rand"
	"net"
	"sync"
	"sync/atomic"
	"testing"
	"time"
)

type vfUdpDg struct {
	id      int
	raw     []byte
	deliver bool
	want    vfM
	cls     string
}

type vfUdpRun struct {
	t      *testing.T
	tr     *vfTrace
	rnd    *rand.Rand
	u      *UDPServerTransport
	mu     sync.Mutex
	got    []*Message
	parsed int32
	recvd  int32
	events []vfM
	bufIds map[*byte]int
	id     string
}

func (r *vfUdpRun) HandleRawMessage(m *RawMessage) {
	r.mu.Lock()
	r.got = append(r.got, m.Message)
	r.mu.Unlock()
}
func (r *vfUdpRun) HandleMessage(m *Message) {}

func (r *vfUdpRun) bufId(b []byte) int {
	if len(b) == 0 {
		return 0
	}
	p := &b[0]
	if id, ok := r.bufIds[p]; ok {
		return id
	}
	id := len(r.bufIds) + 1
	r.bufIds[p] = id
	return id
}

func (r *vfUdpRun) hook(ev string, kv ...interface{}) {
	switch ev {
	case "pool.alloc", "pool.free":
		if len(kv) > 1 && kv[0] == interface{}(r.u.msgBufPool) {
			r.mu.Lock()
			name := "alloc"
			if ev == "pool.free" {
				name = "free"
			}
			r.events = append(r.events, vfM{"ev": name, "case": r.id, "cls": "", "buf": r.bufId(kv[1].([]byte))})
			r.mu.Unlock()
		}
	case "udp.recv":
		if len(kv) > 2 && kv[0] == interface{}(r.u) {
			r.mu.Lock()
			r.events = append(r.events, vfM{"ev": "recv", "case": r.id, "cls": "", "buf": r.bufId(kv[1].([]byte)), "n": kv[2]})
			r.mu.Unlock()
			atomic.AddInt32(&r.recvd, 1)
		}
	case "udp.parse":
		if len(kv) > 0 && kv[0] == interface{}(r.u) {
			atomic.AddInt32(&r.parsed, 1)
		}
	}
}

// body: every byte says which datagram it belongs to (ids 1..250)
func vfMarkedBody(id, n int) []byte {
	b := make([]byte, n)
	for i := range b {
		b[i] = byte(id)
	}
	return b
}

// build a datagram of a class: total size, declared relative to carried, cut
func (r *vfUdpRun) mk(id int, size int, decl string, cut string) vfUdpDg {
	m := &vfFMsg{start: fmt.Sprintf("MESSAGE sip:u%d@example.com SIP/2.0", id)}
	m.hdrs = [][2]string{{"X-Dg", fmt.Sprint(id)}, {"Call-ID", fmt.Sprintf("dg-%s-%d", r.id, id)}}
	head := len(m.render("\r\n")) + len("Content-Length: 00000\r\n")
	bl := size - head
	if bl < 0 {
		bl = 0
	}
	body := vfMarkedBody(id, bl)
	declared := bl
	switch decl {
	case "larger":
		declared = bl + 1 + r.rnd.Intn(3000)
	case "muchlarger":
		declared = bl + 24000 + r.rnd.Intn(20000)
	case "smaller":
		if bl > 0 {
			declared = r.rnd.Intn(bl)
		}
	}
	m.hdrs = append(m.hdrs, [2]string{[]string{"Content-Length", "l"}[r.rnd.Intn(2)], fmt.Sprintf("%05d", declared)})
	m.body = body
	raw := m.render("\r\n")
	d := vfUdpDg{id: id, cls: fmt.Sprintf("size=%d decl=%s cut=%s", len(raw), decl, cut)}
	hdrEnd := len(raw) - len(body)
	switch cut {
	case "hdr":
		raw = raw[:1+r.rnd.Intn(hdrEnd-1)]
	case "body":
		if bl > 0 {
			raw = raw[:hdrEnd+r.rnd.Intn(bl)]
		}
	}
	carried := len(raw) - hdrEnd
	d.raw = raw
	d.deliver = len(raw) >= hdrEnd && declared <= carried
	if d.deliver {
		w := &vfFMsg{start: m.start, hdrs: m.hdrs, body: body[:declared]}
		d.want = w.abs()
	} else {
		d.want = vfM{"start": "", "hdrs": [][]string{}, "body": ""}
	}
	return d
}

func (r *vfUdpRun) runCase(id string, dgs []vfUdpDg, nsrc int, addr *net.UDPAddr) {
	r.id = id
	r.mu.Lock()
	r.got = nil
	r.events = nil
	r.mu.Unlock()
	atomic.StoreInt32(&r.parsed, 0)
	atomic.StoreInt32(&r.recvd, 0)
	r.tr.Emit(vfM{"ev": "reset", "case": id, "cls": ""})
	socks := make([]*net.UDPConn, nsrc)
	for i := range socks {
		c, err := net.DialUDP("udp", nil, addr)
		if err != nil {
			r.t.Fatalf("VF-INFRA %v", err)
		}
		c.SetWriteBuffer(1 << 20)
		socks[i] = c
	}
	// back-to-back, windowed so that the kernel does not drop: at most ~150 KiB outstanding
	sent, outstanding := 0, 0
	for _, d := range dgs {
		for outstanding+len(d.raw) > 150000 {
			time.Sleep(200 * time.Microsecond)
			outstanding = 0
			for _, x := range dgs[int(atomic.LoadInt32(&r.parsed)):sent] {
				outstanding += len(x.raw)
			}
		}
		socks[r.rnd.Intn(nsrc)].Write(d.raw)
		sent++
		outstanding += len(d.raw)
	}
	end := time.Now().Add(3 * time.Second)
	for int(atomic.LoadInt32(&r.parsed)) < len(dgs) && time.Now().Before(end) {
		time.Sleep(200 * time.Microsecond)
	}
	time.Sleep(2 * time.Millisecond)
	for _, c := range socks {
		c.Close()
	}
	nrecv := int(atomic.LoadInt32(&r.recvd))
	// only now serialise what was delivered
	r.mu.Lock()
	got := append([]*Message(nil), r.got...)
	events := append([]vfM(nil), r.events...)
	r.mu.Unlock()
	for _, e := range events {
		r.tr.Emit(e)
	}
	byId := map[int][]*Message{}
	for _, m := range got {
		v, _ := m.GetHeaderValue("X-Dg")
		var k int
		fmt.Sscanf(fmt.Sprint(v), "%d", &k)
		byId[k] = append(byId[k], m)
	}
	if nrecv < len(dgs) {
		// datagrams the kernel dropped before udp.recv are not the proxy's business: with several sources the
		// arrival order is unknown, so a case with drops is reported only through the deliveries it did make
		r.tr.Emit(vfM{"ev": "note", "case": id, "cls": fmt.Sprintf("kernel dropped %d of %d", len(dgs)-nrecv, len(dgs))})
	}
	for _, d := range dgs {
		ms := byId[d.id]
		if nrecv < len(dgs) && len(ms) == 0 {
			continue
		}
		e := vfM{"ev": "dgram", "case": id, "cls": d.cls, "id": d.id, "deliver": d.deliver, "want": d.want, "ngot": len(ms), "panic": "",
			"got": vfM{"start": "", "hdrs": [][]string{}, "body": ""}, "prov": []int{}}
		if len(ms) > 0 {
			pm := vfCatch(func() {
				e["got"] = vfAbsParsed(ms[0])
				seen := map[int]bool{}
				prov := []int{}
				for _, b := range ms[0].body {
					if !seen[int(b)] {
						seen[int(b)] = true
						prov = append(prov, int(b))
					}
				}
				e["prov"] = prov
			})
			e["panic"] = pm
		}
		r.tr.Emit(e)
	}
}

func TestVfUdp(t *testing.T) {
	tr := vfOpenTrace(t, "VERIF_TRACE")
	defer tr.Close()
	r := &vfUdpRun{t: t, tr: tr, rnd: vfRand(10), bufIds: map[*byte]int{}}
	ip := vfIPBase() + "1"
	port := vfFreePort(t, ip)
	u, err := NewUDPServerTransport(ip, port, true, NewSelfLearnRoute())
	if err != nil {
		t.Fatalf("VF-INFRA %v", err)
	}
	r.u = u
	vfSetHook(r.hook)
	if err := u.Start(r); err != nil {
		t.Fatalf("VF-INFRA %v", err)
	}
	u.conn.SetReadBuffer(4 << 20)
	addr := &net.UDPAddr{IP: net.ParseIP(ip), Port: port}
	ncase := 0
	// (1) class sequences emitted by TLC: size 2 -> small (300 B), 4 -> large (30 KiB); hdr > size -> cut in headers;
	//     decl vs size -> exact / larger / smaller
	if in := vfEnv("VERIF_IN", ""); in != "" {
		stride := vfEnvInt("VERIF_STRIDE", 1)
		k := 0
		vfReadBehaviours(t, in, func(raw []byte) {
			k++
			if stride > 1 && (int64(k)+vfSeed())%int64(stride) != 0 {
				return
			}
			var seq []struct{ Id, Size, Hdr, Decl int }
			if err := json.Unmarshal(raw, &seq); err != nil {
				t.Fatalf("bad sequence: %v", err)
			}
			var dgs []vfUdpDg
			for _, c := range seq {
				size := map[int]int{1: 120, 2: 300 + r.rnd.Intn(200), 3: 9000 + r.rnd.Intn(2000), 4: 30000 + r.rnd.Intn(20000)}[c.Size]
				decl, cut := "exact", "none"
				switch {
				case c.Hdr > c.Size:
					cut = "hdr"
				case c.Hdr+c.Decl > 4:
					decl = "muchlarger"
				case c.Hdr+c.Decl > c.Size:
					decl = "larger"
				case c.Hdr+c.Decl < c.Size:
					decl = "smaller"
				}
				dgs = append(dgs, r.mk(c.Id, size, decl, cut))
			}
			r.runCase(fmt.Sprintf("tlc%d", k), dgs, 1, addr)
			ncase++
		})
	}
	// (2) random mixed sequences, one or several sources in parallel
	nrand := vfEnvInt("VERIF_NRAND", 40)
	for i := 0; i < nrand; i++ {
		n := 3 + r.rnd.Intn(60)
		var dgs []vfUdpDg
		for j := 1; j <= n; j++ {
			size := 20 + r.rnd.Intn(400)
			switch r.rnd.Intn(5) {
			case 0:
				size = 1000 + r.rnd.Intn(59000)
			case 1:
				size = 20 + r.rnd.Intn(100)
			}
			decl := []string{"exact", "exact", "larger", "smaller", "muchlarger"}[r.rnd.Intn(5)]
			cut := []string{"none", "none", "none", "hdr", "body"}[r.rnd.Intn(5)]
			dgs = append(dgs, r.mk(j, size, decl, cut))
		}
		r.runCase(fmt.Sprintf("rand%d", i), dgs, 1+r.rnd.Intn(3)*r.rnd.Intn(2), addr)
		ncase++
	}
	fmt.Printf("VF cases=%d events=%d\n", ncase, tr.n)
}
