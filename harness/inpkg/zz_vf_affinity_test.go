//go:build verif

package main

// Driver for C12: 2-8 real client connections to a real TCP listener of the
// proxy, all from one address, announcing equal or different Via sent-by
// values; requests are dispatched to Backend doubles; the backend responses
// are injected in the generated order (delayed, reordered across connections,
// 1xx before 2xx); where each relayed response is read is observed at
// system-call level behind the loop barrier.  A TCP listener on every
// announced sent-by address catches responses sent on a new connection.

import (
	"encoding/json"
	"fmt"
	"strings"
	"testing"
)

type vfAffBeh struct {
	Hist []struct {
		Op string `json:"op"`
		T  string `json:"t"`
	} `json:"hist"`
	SentBy map[string]string `json:"sentby"`
	TxConn map[string]string `json:"txconn"`
}

type vfAffTx struct {
	conn   string
	holder string
	vias   []string
	branch string
	cseq   string
}

type vfAffinity struct {
	t     *testing.T
	tr    *vfTrace
	g     *vfGamma
	b     *vfBench
	id    string
	port  int
	conns map[string]*vfClient
	names []string
	txs   map[string]*vfAffTx
	recv  bool
	alt   bool // the backend answers from another socket than the configured one (same address, another source port)
}

func (a *vfAffinity) open(id string, recv bool, connNames []string) {
	a.id, a.recv = id, recv
	cfg := vfBenchCfg{Names: "svc.example.com", Hosts: a.g.hosts(),
		Proxies: []vfPCfg{{Addr: a.g.ip("10.0.0.1"), Trans: []vfTCfg{{"UDP", 5060, false}, {"TCP", 0, true}}, Recv: recv,
			Backends: []string{a.g.ip("10.0.4.1") + ":5060", a.g.ip("10.0.4.2") + ":5060"}}}}
	a.b = vfGetBench(a.t, cfg)
	ts := a.b.trans[0][1].(*TCPServerTransport)
	a.port = ts.port
	for _, c := range a.conns {
		c.close()
	}
	// connections closed by the previous case are noticed by the reader goroutines only; nothing to wait for
	a.conns = map[string]*vfClient{}
	a.names = connNames
	a.txs = map[string]*vfAffTx{}
	a.tr.Emit(vfM{"ev": "reset", "case": id})
	for _, n := range connNames {
		c := vfDial(a.t, a.g.ip("10.0.5.5"), a.g.ip("10.0.0.1"), a.port)
		a.conns[n] = c
		if !a.b.wait("loop.conn") {
			a.t.Fatalf("VF-INFRA accepted connection not processed by the loop")
		}
	}
}

func (a *vfAffinity) sentBy(sym string) string {
	switch sym {
	case "s1":
		return a.g.ip("10.0.2.1") + ":5062"
	case "s2":
		return a.g.ip("10.0.2.2") + ":5064"
	case "s3":
		return "client.example.com:5062"
	case "s5": // the port left implicit: the default port 5060 is meant
		return a.g.ip("10.0.2.1")
	case "s6": // the same destination as s5, the default port written out
		return a.g.ip("10.0.2.1") + ":5060"
	case "s7":
		return "client.example.com"
	}
	return a.g.ip("10.0.2.3") + ":5062"
}

func (a *vfAffinity) req(t, conn, sentby string, rport string) {
	c := a.conns[conn]
	tx := &vfAffTx{conn: conn, branch: fmt.Sprintf("z9hG4bK-%s-%s", a.id, t), cseq: "1 INVITE"}
	a.txs[t] = tx
	hs := []vfHdr{{"Via", fmt.Sprintf("SIP/2.0/TCP %s;branch=%s%s", a.sentBy(sentby), tx.branch, rport)}, {"Max-Forwards", "70"},
		{"From", "<sip:a@a.example>;tag=f" + t}, {"To", "<sip:service@svc.example.com>"}, {"Call-ID", a.id + "-" + t}, {"CSeq", tx.cseq}, {"Content-Length", "0"}}
	raw := vfRender("INVITE sip:service@svc.example.com SIP/2.0", hs, nil)
	vfAllSinks.pollAll()
	a.b.mu.Lock()
	a.b.outs = nil
	a.b.mu.Unlock()
	var stuck bool
	pm := vfCatch(func() {
		if err := c.write(raw); err != nil {
			a.t.Fatalf("VF-INFRA cannot write to the proxy: %v", err)
		}
		stuck = !a.b.wait("loop.msg")
	})
	a.b.mu.Lock()
	outs := append([]vfOut(nil), a.b.outs...)
	a.b.outs = nil
	a.b.mu.Unlock()
	dispatched := false
	for _, o := range outs {
		if o.Kind == "backend" {
			dispatched = true
			tx.holder = o.Addr
			tx.vias = vfViaLines(o.Raw)
		}
	}
	a.tr.Emit(vfM{"ev": "req", "case": a.id, "cls": "sentby=" + sentby + rport, "t": t, "conn": conn, "dispatched": dispatched, "panic": pm, "stuck": stuck})
}

func (a *vfAffinity) resp(t string, final bool, status int) {
	tx := a.txs[t]
	if tx == nil || tx.holder == "" {
		return
	}
	var hs []vfHdr
	for _, v := range tx.vias {
		hs = append(hs, vfHdr{"Via", v})
	}
	hs = append(hs, vfHdr{"From", "<sip:a@a.example>;tag=f" + t}, vfHdr{"To", "<sip:service@svc.example.com>;tag=b" + t}, vfHdr{"Call-ID", a.id + "-" + t},
		vfHdr{"CSeq", tx.cseq}, vfHdr{"Content-Length", "0"})
	raw := vfRender(fmt.Sprintf("SIP/2.0 %d X", status), hs, nil)
	i := strings.LastIndexByte(tx.holder, ':')
	var port int
	fmt.Sscanf(tx.holder[i+1:], "%d", &port)
	if a.alt {
		port += 11
	}
	for _, c := range a.conns {
		c.poll()
	}
	var res vfStepRes
	pm := vfCatch(func() { res = a.b.inject(0, 0, tx.holder[:i], port, raw, nil) })
	got := []string{}
	for _, n := range a.names {
		msgs, _ := a.conns[n].poll()
		for range msgs {
			got = append(got, n)
		}
	}
	for _, o := range res.Outs {
		if o.Kind == "sink" {
			got = append(got, "NEW")
		}
	}
	a.tr.Emit(vfM{"ev": "resp", "case": a.id, "cls": fmt.Sprintf("status=%d backend-answers-from-another-port=%v", status, a.alt), "t": t, "final": final, "got": got, "panic": pm, "stuck": res.Stuck})
}

func TestVfAffinity(t *testing.T) {
	tr := vfOpenTrace(t, "VERIF_TRACE")
	defer tr.Close()
	a := &vfAffinity{t: t, tr: tr, conns: map[string]*vfClient{}}
	a.g = &vfGamma{base: vfIPBase(), rnd: vfRand(12)}
	for _, sp := range [][2]interface{}{{"10.0.2.1", 5062}, {"10.0.2.2", 5064}, {"10.0.2.3", 5062}, {"10.0.2.9", 5062}, {"10.0.5.5", 5062}, {"10.0.5.5", 5064}, {"10.0.2.1", 5060}, {"10.0.2.9", 5060}} {
		vfAllSinks.get(t, a.g.ip(sp[0].(string)), sp[1].(int))
	}
	rnd := vfRand(120)
	ncase := 0
	rports := []string{"", ";rport", ""}
	if in := vfEnv("VERIF_IN", ""); in != "" {
		k := 0
		max := vfEnvInt("VERIF_MAXBEH", 300)
		vfReadBehaviours(t, in, func(raw []byte) {
			k++
			if k > max {
				return
			}
			var bh vfAffBeh
			if err := json.Unmarshal(raw, &bh); err != nil {
				t.Fatalf("bad behaviour: %v", err)
			}
			recv := (k+int(vfSeed()))%3 != 0
			a.alt = k%5 == 2
			a.open(fmt.Sprintf("tlc%d-recv%v", k, recv), recv, []string{"c1", "c2", "c3"})
			rp := rports[rnd.Intn(len(rports))]
			for _, h := range bh.Hist {
				switch h.Op {
				case "req":
					c := bh.TxConn[h.T]
					sb := bh.SentBy[c]
					if k%4 == 1 { // the model's two sent-by values realised as one destination, its default port implicit / written out
						sb = map[string]string{"s1": "s5", "s2": "s6"}[sb]
					}
					a.req(h.T, c, sb, rp)
				case "prov":
					a.resp(h.T, false, []int{100, 180, 183}[rnd.Intn(3)])
				case "final":
					a.resp(h.T, true, []int{200, 200, 404, 486, 603}[rnd.Intn(5)])
				}
			}
			ncase++
		})
	}
	// random: 2-8 connections, 1-20 transactions each, responses delayed and reordered across connections
	nrand := vfEnvInt("VERIF_NRAND", 20)
	for i := 0; i < nrand; i++ {
		nc := 2 + rnd.Intn(7)
		names := make([]string, nc)
		sb := make([]string, nc)
		for j := range names {
			names[j] = fmt.Sprintf("c%d", j+1)
			sb[j] = []string{"s1", "s1", "s2", "s3", "s4", "s5", "s5", "s6", "s7"}[rnd.Intn(9)]
		}
		recv := rnd.Intn(3) != 0
		a.open(fmt.Sprintf("rand%d-recv%v", i, recv), recv, names)
		type pend struct {
			t    string
			prov int
		}
		var inflight []pend
		left := make([]int, nc)
		total := 0
		for j := range left {
			left[j] = 1 + rnd.Intn(20)
			total += left[j]
		}
		n := 0
		for total > 0 || len(inflight) > 0 {
			// every fourth case: all requests first (up to 160 transactions pending at once), then the responses
			if total > 0 && (len(inflight) == 0 || rnd.Intn(2) == 0 || i%4 == 1) {
				j := rnd.Intn(nc)
				if left[j] == 0 {
					continue
				}
				left[j]--
				total--
				n++
				tn := fmt.Sprintf("t%d", n)
				a.req(tn, names[j], sb[j], rports[rnd.Intn(len(rports))])
				inflight = append(inflight, pend{tn, 0})
				continue
			}
			q := rnd.Intn(len(inflight))
			p := &inflight[q]
			if p.prov < 2 && rnd.Intn(2) == 0 {
				p.prov++
				a.resp(p.t, false, []int{100, 180, 183}[rnd.Intn(3)])
				continue
			}
			a.resp(p.t, true, []int{200, 404, 603}[rnd.Intn(3)])
			inflight = append(inflight[:q], inflight[q+1:]...)
		}
		ncase++
	}
	fmt.Printf("VF cases=%d events=%d\n", ncase, tr.n)
}
