//go:build verif

package main

// Driver for C14: every AST of the bounded grammar emitted by TLC (and random
// larger ones) rendered with seeded token choices, pushed through the real
// ParseSipURI / ParseAddrSpec / ParseNameAddr / ParseFromSpec / ParseTo /
// ParseRoute / ParseRecordRoute / ParseVia and through a whole Message (decode
// in place, then Bytes()); decoded accessors and re-encoded text are abstracted
// by alpha and judged by Trace_Codec.tla.

import (
	"bufio"
	"bytes"
	"encoding/json"
	"fmt"
	"math/rand"
	"strconv"
	"strings"
	"testing"
)

type vfAddrAST struct {
	Kind    string   `json:"kind"`
	Form    string   `json:"form"`
	Disp    string   `json:"disp"`
	Scheme  string   `json:"scheme"`
	User    string   `json:"user"`
	Host    string   `json:"host"`
	Port    int      `json:"port"`
	UParams []string `json:"uparams"`
	UHdrs   []string `json:"uhdrs"`
	HParams []string `json:"hparams"`
	Ents    []struct {
		Proto  string   `json:"proto"`
		Port   int      `json:"port"`
		Params []string `json:"params"`
	} `json:"ents"`
}

type vfCodec struct {
	tr  *vfTrace
	rnd *rand.Rand
	n   int
}

func (c *vfCodec) pick(xs ...string) string { return xs[c.rnd.Intn(len(xs))] }
func (c *vfCodec) tok() string {
	return c.pick("abc", "x1", "a.b", "A-Z", "q%41r", "100%25", "n_m", "caf\xc3\xa9", "a+b", "~t!", "0", "%s%d")
}

func (c *vfCodec) uri(a *vfAddrAST) string {
	switch a.Scheme {
	case "tel":
		u := "tel:+1555" + fmt.Sprint(1000+c.rnd.Intn(9000))
		for _, p := range a.UParams {
			u += c.uparam(p)
		}
		return u
	case "urn":
		u := "urn:service:" + c.pick("sos", "sos.fire", "x-y", "s%41")
		for _, p := range a.UParams {
			u += c.uparam(p)
		}
		return u
	}
	u := a.Scheme + ":"
	switch a.User {
	case "user":
		u += c.pick("alice", "bob.b", "+1555", "u%41", "a_b-c") + "@"
	case "userpass":
		u += c.pick("alice", "u1") + ":" + c.pick("secret", "p%41ss", "1234") + "@"
	case "semi":
		u += "al;ice@"
	case "qmark":
		u += "al?ice@"
	}
	switch a.Host {
	case "ipv4":
		u += fmt.Sprintf("192.0.2.%d", 1+c.rnd.Intn(250))
	case "name":
		u += c.pick("example.com", "a.b-c.example", "h1", "sip-gw.example.org")
	case "ipv6":
		u += c.pick("[2001:db8::1]", "[::1]")
	}
	if a.Port != 0 {
		u += fmt.Sprintf(":%d", a.Port)
	}
	for _, p := range a.UParams {
		u += c.uparam(p)
	}
	for i, h := range a.UHdrs {
		if i == 0 {
			u += "?"
		} else {
			u += "&"
		}
		if h == "empty" {
			u += c.pick("subject", "h1") + fmt.Sprint(i) + "="
		} else {
			u += c.pick("subject", "priority", "h") + fmt.Sprint(i) + "=" + c.tok()
		}
	}
	return u
}

var vfUPn int

func (c *vfCodec) uparam(kind string) string {
	vfUPn++
	switch kind {
	case "valued":
		return fmt.Sprintf(";p%d=%s", vfUPn%7, c.pick("v", "tcp", "x.y", "10.0.0.1", "a_b"))
	case "valueless":
		return fmt.Sprintf(";f%d", vfUPn%7)
	case "lr":
		return ";lr"
	}
	return fmt.Sprintf(";q%d=%s", vfUPn%7, c.pick("%41", "100%25", "a%s", "%d%v"))
}

func (c *vfCodec) hparam(kind string) string {
	vfUPn++
	switch kind {
	case "tag":
		return ";tag=" + c.pick("a73kszlfl", "t-1", "x%41y", "1", "T.9_z")
	case "valued":
		return fmt.Sprintf(";hp%d=%s", vfUPn%5, c.tok())
	}
	return fmt.Sprintf(";hf%d", vfUPn%5)
}

func (c *vfCodec) addr(a *vfAddrAST) string {
	u := c.uri(a)
	var s string
	if a.Form == "bare" {
		s = u
	} else {
		switch a.Disp {
		case "token":
			s = c.pick("Alice ", "Bob-B ", "A.B ")
		case "quoted":
			s = c.pick("\"Alice A\" ", "\"B; C\" ", "\"x=y?z\" ")
		case "quotedpct":
			s = c.pick("\"100% sure\" ", "\"%s %d\" ", "\"a%41\" ")
		}
		s += "<" + u + ">"
	}
	for _, p := range a.HParams {
		s += c.hparam(p)
	}
	return s
}

func (c *vfCodec) via(a *vfAddrAST) string {
	var ents []string
	for i, e := range a.Ents {
		s := fmt.Sprintf("SIP/2.0/%s %s", e.Proto, c.pick("192.0.2.7", "host.example.com", "h-2.example", fmt.Sprintf("10.1.1.%d", i+1)))
		if e.Port != 0 {
			s += fmt.Sprintf(":%d", e.Port)
		}
		for _, p := range e.Params {
			switch p {
			case "branch":
				s += ";branch=z9hG4bK" + c.pick("776asdhds", "a%41", "x.y-z")
			case "received":
				s += ";received=" + c.pick("192.0.2.9", "10.9.9.9")
			case "rport":
				s += ";rport"
			case "rportval":
				s += fmt.Sprintf(";rport=%d", 1024+c.rnd.Intn(60000))
			case "other":
				vfUPn++
				s += fmt.Sprintf(";x%d=%s", vfUPn%5, c.tok())
			case "flag":
				vfUPn++
				s += fmt.Sprintf(";fl%d", vfUPn%5)
			}
		}
		ents = append(ents, s)
	}
	return strings.Join(ents, c.pick(",", ", "))
}

// a decoded Via line whose top entry is stamped the way Message.SetReceived does it (received, and rport when present):
// every other entry and parameter must be re-encoded as received
func (c *vfCodec) runViaStamp(id, cls, text string) {
	var conc, re1 []vfAEnt
	for _, p := range vfSplitTop(text, ',') {
		conc = append(conc, vfAbsVia(p))
	}
	errS := ""
	pm := vfCatch(func() {
		v, err := ParseVia(text)
		if err != nil {
			errS = err.Error()
			return
		}
		p0, err := v.GetParam(0)
		if err != nil {
			errS = err.Error()
			return
		}
		p0.SetReceived("192.0.2.77")
		if p0.HasParam("rport") {
			p0.SetParam("rport", "4444")
		}
		for _, p := range vfSplitTop(v.String(), ',') {
			re1 = append(re1, vfAbsVia(p))
		}
	})
	if re1 == nil {
		re1 = []vfAEnt{}
	}
	c.tr.Emit(vfM{"ev": "codec", "case": id, "cls": cls + " hdr=ViaStamped", "kind": "viastamp", "hdr": "ViaStamped", "conc": conc, "re1": re1, "re2": re1, "acc": vfM{},
		"stamp": vfM{"ip": vfIntern.Id("192.0.2.77"), "port": vfIntern.Id("4444")}, "err": errS, "panic": pm})
	c.n++
}

// a list value (Via, Route) is decoded, its top entry consumed the way the proxy does it (PopViaParam / PopRouteParam),
// and then the SAME text - arriving in a later message - is decoded again: what the second decoding re-encodes must
// still be the whole list (no decoded object is shared between two decodings)
func (c *vfCodec) runAfterUse(id, cls, hdr, text string) {
	var conc, re1 []vfAEnt
	abs := vfAbsRoute
	if hdr == "Via" {
		abs = vfAbsVia
	}
	for _, p := range vfSplitTop(text, ',') {
		conc = append(conc, abs(p))
	}
	errS := ""
	pm := vfCatch(func() {
		var s2 string
		if hdr == "Via" {
			v, err := ParseVia(text)
			if err != nil {
				errS = err.Error()
				return
			}
			v.PopViaParam()
			w, err := ParseVia(text)
			if err != nil {
				errS = "second decoding: " + err.Error()
				return
			}
			s2 = w.String()
		} else {
			v, err := ParseRoute(text)
			if err != nil {
				errS = err.Error()
				return
			}
			v.PopRouteParam()
			w, err := ParseRoute(text)
			if err != nil {
				errS = "second decoding: " + err.Error()
				return
			}
			s2 = w.String()
		}
		for _, p := range vfSplitTop(s2, ',') {
			re1 = append(re1, abs(p))
		}
	})
	if re1 == nil {
		re1 = []vfAEnt{}
	}
	c.tr.Emit(vfM{"ev": "codec", "case": id, "cls": cls + " hdr=" + hdr + "AfterUse", "kind": "afteruse", "hdr": hdr, "conc": conc, "re1": re1, "re2": re1, "acc": vfM{}, "err": errS, "panic": pm})
	c.n++
}

// CSeq = 1*DIGIT LWS Method: every spelling of the number (leading zeros) and of the separator is re-encoded as received
func (c *vfCodec) runCSeq() {
	k := 0
	for _, num := range []string{"0", "1", "7", "007", "4711", "2147483647", "0000000001"} {
		for _, sep := range []string{" ", "  ", "\t", " \t "} {
			for _, method := range []string{"INVITE", "ACK", "NOTIFY", "X-CUSTOM_1", "invite"} {
				k++
				text := num + sep + method
				re1, re2, errS := "", "", ""
				acc := vfM{}
				pm := vfCatch(func() {
					v, err := ParseCSeq(text)
					if err != nil {
						errS = err.Error()
						return
					}
					acc["seq"], acc["method"] = v.Seq, vfIntern.Id(v.Method)
					re1 = v.String()
					v2, err := ParseCSeq(re1)
					if err != nil {
						errS = "second round: " + err.Error()
						return
					}
					re2 = v2.String()
				})
				want, _ := strconv.Atoi(num)
				c.tr.Emit(vfM{"ev": "codec", "case": fmt.Sprintf("cseq%d", k), "cls": "cseq hdr=CSeq", "kind": "cseq", "hdr": "CSeq", "conc": []vfAEnt{}, "re1": []vfAEnt{}, "re2": []vfAEnt{},
					"text": vfIntern.Id(text), "enc1": vfIntern.Id(re1), "enc2": vfIntern.Id(re2), "want": vfM{"seq": want, "method": vfIntern.Id(method)}, "acc": acc, "err": errS, "panic": pm})
				c.n++
			}
		}
	}
}

// one (text, header kind): decode with the real code, re-encode, decode and re-encode again
func (c *vfCodec) run(id, cls, hdr, text string) {
	var conc, re1, re2 []vfAEnt
	acc := vfM{}
	errS := ""
	abs := func(s string) []vfAEnt {
		var r []vfAEnt
		switch hdr {
		case "Via":
			for _, p := range vfSplitTop(s, ',') {
				r = append(r, vfAbsVia(p))
			}
		case "Route", "Record-Route":
			for _, p := range vfSplitTop(s, ',') {
				r = append(r, vfAbsRoute(p))
			}
		case "From", "To":
			r = append(r, vfAbsAddr(s))
		case "NameAddr":
			r = append(r, vfAbsRoute(s))
		default: // bare URIs
			e := vfEmptyEnt()
			e.Uri = vfAbsUri(s)
			r = append(r, e)
		}
		return r
	}
	conc = abs(text)
	decode := func(s string) (string, error) {
		switch hdr {
		case "Via":
			v, err := ParseVia(s)
			if err != nil {
				return "", err
			}
			p, _ := v.GetParam(0)
			acc["host"], acc["port"], acc["transport"] = p.Host, p.GetPort(), p.Transport
			acc["branch"], acc["received"], acc["rport"] = "<absent>", "<absent>", 0
			if b, err := p.GetBranch(); err == nil {
				acc["branch"] = b
			}
			if b, err := p.GetReceived(); err == nil {
				acc["received"] = b
			}
			if b, err := p.GetRPort(); err == nil && b > 0 {
				acc["rport"] = b
			}
			return v.String(), nil
		case "Route":
			v, err := ParseRoute(s)
			if err != nil {
				return "", err
			}
			rp, _ := v.GetRouteParam(0)
			c.uriAcc(acc, rp.GetAddress().GetAddress())
			return v.String(), nil
		case "Record-Route":
			v, err := ParseRecordRoute(s)
			if err != nil {
				return "", err
			}
			rr, _ := v.GetRecRoute(0)
			c.uriAcc(acc, rr.GetNameAddr().GetAddress())
			return v.String(), nil
		case "From":
			v, err := ParseFromSpec(s)
			if err != nil {
				return "", err
			}
			as, _ := v.GetAddrSpec()
			c.uriAcc(acc, as)
			acc["tag"] = "<absent>"
			if t, err := v.GetTag(); err == nil {
				acc["tag"] = t
			}
			return v.String(), nil
		case "To":
			v, err := ParseTo(s)
			if err != nil {
				return "", err
			}
			as, _ := v.GetAddrSpec()
			c.uriAcc(acc, as)
			acc["tag"] = "<absent>"
			if t, err := v.GetTag(); err == nil {
				acc["tag"] = t
			}
			return v.String(), nil
		case "NameAddr":
			v, err := ParseNameAddr(s)
			if err != nil {
				return "", err
			}
			c.uriAcc(acc, v.GetAddress())
			return v.String(), nil
		case "SipURI":
			v, err := ParseSipURI(s)
			if err != nil {
				return "", err
			}
			c.uriAcc(acc, &AddrSpec{sipURI: v})
			return v.String(), nil
		case "Message":
			// the Request-URI through a whole message: decode in place, then Bytes()
			raw := []byte("INVITE " + s + " SIP/2.0\r\nVia: SIP/2.0/UDP 10.0.0.9;branch=z9hG4bKm\r\nContent-Length: 0\r\n\r\n")
			m, err := ParseMessage(bufio.NewReader(bytes.NewReader(raw)))
			if err != nil {
				return "", err
			}
			ru, _ := m.GetRequestURI()
			c.uriAcc(acc, ru)
			out, _ := m.Bytes()
			f := strings.SplitN(string(out), " ", 3)
			if len(f) < 3 {
				return "", fmt.Errorf("relayed start line unreadable")
			}
			return f[1], nil
		default:
			v, err := ParseAddrSpec(s)
			if err != nil {
				return "", err
			}
			c.uriAcc(acc, v)
			return v.String(), nil
		}
	}
	pm := vfCatch(func() {
		s1, err := decode(text)
		if err != nil {
			errS = err.Error()
			return
		}
		re1 = abs(s1)
		acc1 := vfM{}
		for k, v := range acc {
			acc1[k] = v
		}
		s2, err := decode(s1)
		if err != nil {
			errS = "second round: " + err.Error()
			return
		}
		re2 = abs(s2)
		for k, v := range acc1 {
			acc[k] = v
		}
	})
	if re1 == nil {
		re1 = []vfAEnt{}
	}
	if re2 == nil {
		re2 = []vfAEnt{}
	}
	kind := "addr"
	if hdr == "Via" {
		kind = "via"
	}
	c.tr.Emit(vfM{"ev": "codec", "case": id, "cls": cls + " hdr=" + hdr, "kind": kind, "hdr": hdr, "conc": conc, "re1": re1, "re2": re2, "acc": acc, "err": errS, "panic": pm})
	c.n++
}

func (c *vfCodec) uriAcc(acc vfM, as *AddrSpec) {
	if as == nil || !as.IsSIPURI() {
		return
	}
	u, _ := as.GetSIPURI()
	acc["host"], acc["port"], acc["transport"], acc["user"] = vfIntern.Id(u.Host), u.GetPort(), u.GetTransport(), vfIntern.Id(u.User)
}

func vfAddrCls(a *vfAddrAST) string {
	return fmt.Sprintf("form=%s disp=%s scheme=%s user=%s host=%s port=%d uparams=%s uhdrs=%s hparams=%s", a.Form, a.Disp, a.Scheme, a.User, a.Host, a.Port,
		strings.Join(a.UParams, "+"), strings.Join(a.UHdrs, "+"), strings.Join(a.HParams, "+"))
}

func (c *vfCodec) kindsFor(a *vfAddrAST) []string {
	if a.Form == "bare" {
		ks := []string{"From", "To"}
		if len(a.HParams) == 0 {
			ks = append(ks, "AddrSpec", "Message")
			if a.Scheme == "sip" || a.Scheme == "sips" {
				ks = append(ks, "SipURI")
			}
		}
		return ks
	}
	ks := []string{"From", "To", "Route", "Record-Route"}
	if len(a.HParams) == 0 {
		ks = append(ks, "NameAddr")
	}
	return ks
}

func TestVfCodec(t *testing.T) {
	tr := vfOpenTrace(t, "VERIF_TRACE")
	defer tr.Close()
	c := &vfCodec{tr: tr, rnd: vfRand(14)}
	c.runCSeq()
	stride := vfEnvInt("VERIF_STRIDE", 1)
	nkinds := vfEnvInt("VERIF_NKINDS", 2)
	k := 0
	seen := map[string]bool{}
	vfReadBehaviours(t, vfEnv("VERIF_IN", ""), func(raw []byte) {
		if seen[string(raw)] {
			return
		}
		seen[string(raw)] = true
		k++
		if stride > 1 && (int64(k)+vfSeed())%int64(stride) != 0 {
			return
		}
		var a vfAddrAST
		if err := json.Unmarshal(raw, &a); err != nil {
			t.Fatalf("bad AST: %v", err)
		}
		id := fmt.Sprintf("ast%d", k)
		if a.Kind == "via" {
			var ps []string
			for _, e := range a.Ents {
				ps = append(ps, e.Proto+fmt.Sprint(e.Port)+"("+strings.Join(e.Params, "+")+")")
			}
			c.run(id, "via "+strings.Join(ps, ","), "Via", c.via(&a))
			c.runViaStamp(id, "via "+strings.Join(ps, ","), c.via(&a))
			if len(a.Ents) > 1 {
				c.runAfterUse(id, "via "+strings.Join(ps, ","), "Via", c.via(&a))
			}
			return
		}
		ks := c.kindsFor(&a)
		c.rnd.Shuffle(len(ks), func(i, j int) { ks[i], ks[j] = ks[j], ks[i] })
		if len(ks) > nkinds {
			ks = ks[:nkinds]
		}
		for _, h := range ks {
			text := c.addr(&a)
			if h == "AddrSpec" || h == "SipURI" || h == "Message" {
				text = c.uri(&a)
			}
			c.run(id, vfAddrCls(&a), h, text)
			if h == "Route" && a.Form == "nameaddr" {
				c.runAfterUse(id, vfAddrCls(&a), "Route", c.addr(&a)+c.pick(",", ", ")+c.addr(&a)+c.pick(",", " , ")+c.addr(&a))
			}
		}
	})
	// random beyond the bounds: 0-6 URI parameters, 0-3 URI headers, 0-5 header parameters, 1-5 Via entries with 0-8 parameters
	nrand := vfEnvInt("VERIF_NRAND", 3000)
	for i := 0; i < nrand; i++ {
		id := fmt.Sprintf("rand%d", i)
		if c.rnd.Intn(4) == 0 {
			var a vfAddrAST
			a.Kind = "via"
			n := 1 + c.rnd.Intn(5)
			for j := 0; j < n; j++ {
				var e struct {
					Proto  string   `json:"proto"`
					Port   int      `json:"port"`
					Params []string `json:"params"`
				}
				e.Proto = c.pick("UDP", "TCP", "TLS", "SCTP", "WS", "udp")
				e.Port = []int{0, 5060, 5061, 6000}[c.rnd.Intn(4)]
				used := map[string]bool{}
				for q := c.rnd.Intn(9); q > 0; q-- {
					p := c.pick("branch", "received", "rport", "rportval", "other", "flag", "other")
					if (p == "branch" || p == "received") && used[p] {
						continue
					}
					if (p == "rport" || p == "rportval") && (used["rport"] || used["rportval"]) {
						continue
					}
					used[p] = true
					e.Params = append(e.Params, p)
				}
				a.Ents = append(a.Ents, e)
			}
			if c.rnd.Intn(10) == 0 {
				// IPv6 reference as sent-by host: generated and tracked as a known finding (property C14)
				txt := c.via(&a)
				f := strings.SplitN(txt, " ", 3)
				if len(f) == 3 {
					rest := f[2]
					end := strings.IndexAny(rest, ":;,")
					if end < 0 {
						end = len(rest)
					}
					c.run(id, "via-random host=ipv6", "Via", f[0]+" "+f[1]+" [2001:db8::7]"+rest[end:])
					continue
				}
			}
			c.run(id, "via-random", "Via", c.via(&a))
			c.runViaStamp(id, "via-random", c.via(&a))
			if len(a.Ents) > 1 {
				c.runAfterUse(id, "via-random", "Via", c.via(&a))
			}
			continue
		}
		a := vfAddrAST{Kind: "addr", Form: c.pick("nameaddr", "nameaddr", "bare"), Disp: c.pick("none", "token", "quoted", "quotedpct"),
			Scheme: c.pick("sip", "sip", "sips", "tel", "urn"), User: c.pick("none", "user", "userpass"), Host: c.pick("ipv4", "name"), Port: []int{0, 5060, 5070}[c.rnd.Intn(3)]}
		lr := false
		for q := c.rnd.Intn(7); q > 0; q-- {
			p := c.pick("valued", "valueless", "lr", "pct")
			if p == "lr" {
				if lr {
					continue
				}
				lr = true
			}
			a.UParams = append(a.UParams, p)
		}
		for q := c.rnd.Intn(4); q > 0; q-- {
			a.UHdrs = append(a.UHdrs, c.pick("valued", "valued", "empty"))
		}
		tag := false
		for q := c.rnd.Intn(6); q > 0; q-- {
			p := c.pick("tag", "valued", "valueless")
			if p == "tag" {
				if tag {
					continue
				}
				tag = true
			}
			a.HParams = append(a.HParams, p)
		}
		if a.Form == "bare" {
			a.Disp, a.UParams, a.UHdrs = "none", nil, nil
		}
		if a.Scheme == "tel" || a.Scheme == "urn" {
			a.User, a.Host, a.Port, a.UHdrs = "none", "name", 0, nil
		}
		ks := c.kindsFor(&a)
		h := ks[c.rnd.Intn(len(ks))]
		text := c.addr(&a)
		if h == "AddrSpec" || h == "SipURI" || h == "Message" {
			text = c.uri(&a)
		}
		c.run(id, vfAddrCls(&a), h, text)
	}
	// CSeq: blank runs between number and method collapse (documented normalisation); everything else survives
	fmt.Printf("VF cases=%d events=%d\n", c.n, tr.n)
}
