//go:build verif

package main

// Driver for C08: every hostile field-class combination emitted by TLC from
// MC_Robust, and seeded byte-level mutations of a corpus of valid messages,
// sent to a real UDPServerTransport / TCPServerTransport feeding a real Proxy
// loop (decode, learn, stamp, route, pin, relay).  There is NO recover around
// the code under test: a panic kills this process and the check reports the
// input that was being processed (written to robust_current.json first).
// After each input (or batch) a sentinel request must still be relayed, and the
// memory allocated meanwhile is measured.

import (
	"encoding/hex"
	"encoding/json"
	"fmt"
	"math/rand"
	"net"
	"os"
	"path/filepath"
	"regexp"
	"runtime"
	"sort"
	"strings"
	"syscall"
	"testing"
	"time"
)

type vfHostile struct {
	Kind  string `json:"kind"`
	Tr    string `json:"tr"`
	Start string `json:"start"`
	Clen  string `json:"clen"`
	Via   string `json:"via"`
	Route string `json:"route"`
	From  string `json:"from"`
	To    string `json:"to"`
	Cseq  string `json:"cseq"`
	Ruri  string `json:"ruri"`
	Bulk  string `json:"bulk"`
}

type vfRobust struct {
	t      *testing.T
	tr     *vfTrace
	g      *vfGamma
	rnd    *rand.Rand
	la     string
	uport  int
	tport  int
	sink   *vfSink
	ucli   *net.UDPConn
	nsent  int
	cur    string
	curCls string
	dead   int // consecutive sentinels that did not come through
}

func (r *vfRobust) render(h *vfHostile) []byte {
	g := r.g
	var hs []vfHdr
	body := "v=0\r\n"
	start := ""
	ruri := map[string]string{"ok": "sip:alice@svc.example.com", "empty": "", "siponly": "sip:", "nohost": "sip:alice@"}[h.Ruri]
	if h.Kind == "req" {
		start = "INVITE " + ruri + " SIP/2.0"
		switch h.Start {
		case "garbage":
			start = "\x01\x02garbage\xff\xfe" // no blank at all: not a start line under any reading
		case "noversion":
			start = "INVITE " + ruri
		case "huge":
			start = "INVITE sip:" + strings.Repeat("u", 30000) + "@svc.example.com SIP/2.0"
		case "negnum":
			start = "INVITE " + ruri + " SIP/-2.0"
		case "zeronum":
			start = "INVITE " + ruri + " SIP/0"
		case "bignum":
			start = "INVITE " + ruri + " SIP/99999999999.0"
		}
	} else {
		start = "SIP/2.0 200 OK"
		switch h.Start {
		case "garbage":
			start = "SIP/2.0 abc \x00\x01"
		case "noversion":
			start = "SIP/2.0"
		case "huge":
			start = "SIP/2.0 200 " + strings.Repeat("r", 30000)
		case "negnum": // strconv.Atoi accepts a sign: the status line decodes
			start = "SIP/2.0 -200 OK"
		case "zeronum":
			start = "SIP/2.0 0 OK"
		case "bignum":
			start = "SIP/2.0 99999999999 OK"
		}
	}
	own := fmt.Sprintf("SIP/2.0/UDP %s:%d;branch=z9hG4bKown", r.la, r.uport)
	via := map[string]string{
		"ok":        fmt.Sprintf("SIP/2.0/UDP %s:5062;branch=z9hG4bKh%d", g.ip("10.0.2.1"), r.nsent),
		"emptyhost": "SIP/2.0/UDP :5062;branch=z9hG4bKh",
		"lbracket":  "SIP/2.0/TCP [;branch=z9hG4bKh",
		"brackets":  "SIP/2.0/TCP [];branch=z9hG4bKh",
		"hugehost":  "SIP/2.0/UDP " + strings.Repeat("h", 20000) + ".example.com;branch=z9hG4bKh",
		"nobranch":  fmt.Sprintf("SIP/2.0/UDP %s:5062", g.ip("10.0.2.1")),
		"sctp":      fmt.Sprintf("SIP/2.0/SCTP %s:5062;branch=z9hG4bKh%d", g.ip("10.0.2.1"), r.nsent),
		"badport":   fmt.Sprintf("SIP/2.0/UDP %s:99999999999999999999;branch=z9hG4bKh", g.ip("10.0.2.1")),
	}[h.Via]
	if h.Kind == "resp" {
		hs = append(hs, vfHdr{"Via", own})
	}
	switch h.Via {
	case "missing":
	case "many":
		ents := make([]string, 1000)
		for i := range ents {
			ents[i] = fmt.Sprintf("SIP/2.0/UDP 10.9.%d.%d;branch=z9hG4bKm%d", i/250, i%250+1, i)
		}
		hs = append(hs, vfHdr{"Via", strings.Join(ents, ",")})
	default:
		hs = append(hs, vfHdr{"Via", via})
	}
	switch h.Route {
	case "ok":
		hs = append(hs, vfHdr{"Route", fmt.Sprintf("<sip:%s:5060;lr>", g.ip("10.0.1.6"))})
	case "tls":
		hs = append(hs, vfHdr{"Route", fmt.Sprintf("<sip:%s;transport=tls;lr>", g.ip("10.0.1.6"))})
	case "garbage":
		hs = append(hs, vfHdr{"Route", "\x00<<>>,,;;==%%%s"})
	case "nogt":
		hs = append(hs, vfHdr{"Route", "<sip:10.0.0.9;lr"})
	}
	addr := func(cls, name, uri string) {
		switch cls {
		case "ok":
			hs = append(hs, vfHdr{name, "<" + uri + ">;tag=t" + name})
		case "garbage":
			hs = append(hs, vfHdr{name, ";;;===<<<\xff %s %d"})
		case "nogt":
			hs = append(hs, vfHdr{name, "\"X\" <" + uri + ";tag=t"})
		}
	}
	addr(h.From, "From", "sip:a@a.example")
	addr(h.To, "To", "sip:b@elsewhere.example")
	hs = append(hs, vfHdr{"Call-ID", fmt.Sprintf("hostile-%d", r.nsent)})
	switch h.Cseq {
	case "ok":
		hs = append(hs, vfHdr{"CSeq", "1 INVITE"})
	case "garbage":
		hs = append(hs, vfHdr{"CSeq", "INVITE one two three"})
	}
	switch h.Bulk {
	case "hdrs5000":
		for i := 0; i < 5000; i++ {
			hs = append(hs, vfHdr{fmt.Sprintf("X-%d", i), "v"})
		}
	case "params5000":
		var sb strings.Builder
		sb.WriteString("<sip:c@c.example")
		for i := 0; i < 2500; i++ {
			fmt.Fprintf(&sb, ";p%d=%d", i, i)
		}
		sb.WriteString(">")
		for i := 0; i < 2500; i++ {
			fmt.Fprintf(&sb, ";h%d", i)
		}
		hs = append(hs, vfHdr{"Contact", sb.String()})
	}
	switch h.Clen {
	case "ok":
		hs = append(hs, vfHdr{"Content-Length", fmt.Sprint(len(body))})
	case "negative":
		hs = append(hs, vfHdr{"Content-Length", "-5"})
	case "2^31":
		hs = append(hs, vfHdr{"Content-Length", "2147483648"})
	case "2^62":
		hs = append(hs, vfHdr{"Content-Length", "4611686018427387904"})
	case "nan":
		hs = append(hs, vfHdr{"Content-Length", "12abc"})
	case "larger":
		hs = append(hs, vfHdr{"Content-Length", fmt.Sprint(len(body) + 1000)})
	case "smaller":
		hs = append(hs, vfHdr{"Content-Length", "1"})
	}
	return vfRender(start, hs, []byte(body))
}

func (r *vfRobust) sentinel(n int) []byte {
	hs := []vfHdr{{"Via", fmt.Sprintf("SIP/2.0/UDP %s:5062;branch=z9hG4bKsent%d", r.g.ip("10.0.2.1"), n)}, {"Max-Forwards", "70"},
		{"From", "<sip:s@s.example>;tag=s"}, {"To", "<sip:probe@elsewhere.example>"}, {"Call-ID", fmt.Sprintf("sentinel-%d", n)}, {"CSeq", "1 OPTIONS"}, {"Content-Length", "0"}}
	return vfRender("OPTIONS sip:probe@elsewhere.example SIP/2.0", hs, nil)
}

// send delivers raw over the transport; for tcp it reports whether the proxy closed the connection
func (r *vfRobust) send(tr string, raw []byte, watchClose bool) (closed bool) {
	if tr == "udp" {
		if len(raw) > 65000 {
			raw = raw[:65000]
		}
		r.ucli.WriteToUDP(raw, &net.UDPAddr{IP: net.ParseIP(r.la), Port: r.uport})
		return false
	}
	c := vfDial(r.t, r.g.ip("10.0.5.5"), r.la, r.tport)
	c.write(raw)
	if watchClose {
		end := time.Now().Add(300 * time.Millisecond)
		for time.Now().Before(end) {
			if _, cl := c.poll(); cl {
				closed = true
				break
			}
			time.Sleep(2 * time.Millisecond)
		}
	}
	// half-close so that a reader waiting for more body bytes sees the end of the stream
	syscall.Shutdown(c.fd, syscall.SHUT_WR)
	go func() { time.Sleep(50 * time.Millisecond); c.close() }()
	return closed
}

func (r *vfRobust) waitSentinel(n int, tr string) bool {
	want := fmt.Sprintf("sentinel-%d", n)
	for try := 0; try < 3; try++ {
		r.send(tr, r.sentinel(n), false)
		end := time.Now().Add(5 * time.Second / 3)
		for time.Now().Before(end) {
			for _, rv := range r.sink.poll() {
				if strings.Contains(string(rv.raw), want) {
					return true
				}
			}
			time.Sleep(500 * time.Microsecond)
		}
	}
	return false
}

func (r *vfRobust) mark(id string, raw []byte) {
	r.cur = id
	if dir := os.Getenv("VERIF_SCRATCH"); dir != "" {
		b, _ := json.Marshal(vfM{"case": id, "cls": r.curCls, "hex": hex.EncodeToString(raw)})
		// atomically: the process may die (that is what is being tested for) while the next mark is being written
		tmp := filepath.Join(dir, "robust_current.json.tmp")
		if os.WriteFile(tmp, b, 0644) == nil {
			os.Rename(tmp, filepath.Join(dir, "robust_current.json"))
		}
	}
}

func (r *vfRobust) one(id, cls, tr string, raws [][]byte, garbage bool) {
	var ms0, ms1 runtime.MemStats
	total := 0
	runtime.ReadMemStats(&ms0)
	t0 := time.Now()
	closed := false
	for i, raw := range raws {
		r.mark(fmt.Sprintf("%s#%d", id, i), raw)
		r.nsent++
		total += len(raw)
		closed = r.send(tr, raw, garbage && len(raws) == 1)
	}
	r.nsent++
	ok := r.waitSentinel(r.nsent, tr)
	if d := time.Since(t0); d > 200*time.Millisecond && os.Getenv("VERIF_DEBUG") != "" {
		fmt.Printf("SLOW %s %v %s\n", id, d, cls)
	}
	runtime.ReadMemStats(&ms1)
	alloc := int64(ms1.TotalAlloc - ms0.TotalAlloc)
	kib := int(alloc / 1024)
	if ok {
		r.dead = 0
	} else {
		r.dead++
	}
	r.tr.Emit(vfM{"ev": "hostile", "case": id, "cls": cls, "tr": tr, "bytes": total, "alloc_kib": kib, "sentinel": ok, "garbage": garbage && tr == "tcp" && len(raws) == 1, "closed": closed})
}

var vfCorpus = []string{
	"INVITE sip:alice@svc.example.com SIP/2.0\r\nVia: SIP/2.0/UDP 10.1.1.1:5062;branch=z9hG4bKc1;rport\r\nMax-Forwards: 70\r\nFrom: \"A\" <sip:a@a.example>;tag=1\r\nTo: <sip:alice@svc.example.com>\r\nCall-ID: c1\r\nCSeq: 1 INVITE\r\nContact: <sip:a@10.1.1.1>\r\nContent-Type: application/sdp\r\nContent-Length: 5\r\n\r\nv=0\r\n",
	"SIP/2.0 200 OK\r\nVia: SIP/2.0/UDP 127.0.0.1:5060;branch=z9hG4bKown,SIP/2.0/UDP 10.1.1.1:5062;branch=z9hG4bKc1;received=10.1.1.1\r\nFrom: <sip:a@a.example>;tag=1\r\nTo: <sip:b@b.example>;tag=2\r\nCall-ID: c1\r\nCSeq: 1 INVITE\r\nl: 0\r\n\r\n",
	"BYE sip:b@elsewhere.example SIP/2.0\r\nv: SIP/2.0/TCP client.example.com;branch=z9hG4bKc2\r\nRoute: <sip:10.2.2.2;lr>, <sip:10.3.3.3:5070;transport=tcp;lr>\r\nf: sip:a@a.example;tag=1\r\nt: <sip:b@b.example>;tag=2\r\ni: c2\r\nCSeq: 2 BYE\r\nContent-Length: 0\r\n\r\n",
	"NOTIFY sip:service@svc.example.com SIP/2.0\r\nVia: SIP/2.0/UDP 10.1.1.1;branch=z9hG4bKc3\r\nFrom: <tel:+15551234>;tag=9\r\nTo: <urn:service:sos>;tag=8\r\nCall-ID: c3\r\nCSeq: 3 NOTIFY\r\nSubscription-State: terminated\r\nExpires: 3600\r\nRecord-Route: <sip:10.4.4.4;lr>\r\nContent-Length: 0\r\n\r\n",
}

var vfDigitRuns = regexp.MustCompile(`[0-9]+`)

func (r *vfRobust) mutate(src []byte) []byte {
	b := append([]byte(nil), src...)
	for k := 1 + r.rnd.Intn(4); k > 0; k-- {
		switch r.rnd.Intn(9) {
		case 0: // bit flips
			for j := 1 + r.rnd.Intn(8); j > 0 && len(b) > 0; j-- {
				b[r.rnd.Intn(len(b))] ^= 1 << uint(r.rnd.Intn(8))
			}
		case 1: // truncate
			if len(b) > 1 {
				b = b[:r.rnd.Intn(len(b))]
			}
		case 2: // splice with another corpus message
			o := []byte(vfCorpus[r.rnd.Intn(len(vfCorpus))])
			if len(b) > 0 {
				b = append(b[:r.rnd.Intn(len(b))], o[r.rnd.Intn(len(o)):]...)
			}
		case 3: // duplicate a line many times
			lines := strings.Split(string(b), "\r\n")
			if len(lines) > 2 {
				i := 1 + r.rnd.Intn(len(lines)-2)
				n := 1 + r.rnd.Intn(300)
				dup := make([]string, n)
				for j := range dup {
					dup[j] = lines[i]
				}
				lines = append(lines[:i], append(dup, lines[i:]...)...)
				b = []byte(strings.Join(lines, "\r\n"))
			}
		case 4: // edit a number (length fields, ports, status code, CSeq, Max-Forwards, address octets)
			if runs := vfDigitRuns.FindAllIndex(b, -1); len(runs) > 0 {
				x := runs[r.rnd.Intn(len(runs))]
				orig := string(b[x[0]:x[1]])
				rep := []string{"-1", "-" + orig, "99999999999", "4611686018427387904", "2147483648", "0x10", "", "0", orig + "00000", "+" + orig}[r.rnd.Intn(10)]
				b = append(b[:x[0]:x[0]], append([]byte(rep), b[x[1]:]...)...)
			}
		case 5: // insert random bytes
			n := 1 + r.rnd.Intn(64)
			ins := make([]byte, n)
			r.rnd.Read(ins)
			i := 0
			if len(b) > 0 {
				i = r.rnd.Intn(len(b))
			}
			b = append(b[:i], append(ins, b[i:]...)...)
		case 6: // blow up one token
			i := 0
			if len(b) > 0 {
				i = r.rnd.Intn(len(b))
			}
			b = append(b[:i], append([]byte(strings.Repeat(string([]byte{byte(33 + r.rnd.Intn(90))}), 1+r.rnd.Intn(30000))), b[i:]...)...)
		case 7: // delimiters
			s := string(b)
			d := []string{"<", ">", ";", ",", ":", "@", "[", "]", "=", "\"", " "}[r.rnd.Intn(11)]
			if i := strings.Index(s, d); i >= 0 {
				s = s[:i] + []string{"", "[", "[]", d + d + d, "\x00"}[r.rnd.Intn(5)] + s[i+1:]
			}
			b = []byte(s)
		case 8: // drop a line
			lines := strings.Split(string(b), "\r\n")
			if len(lines) > 3 {
				i := r.rnd.Intn(len(lines) - 2)
				lines = append(lines[:i], lines[i+1:]...)
				b = []byte(strings.Join(lines, "\r\n"))
			}
		}
	}
	if len(b) > 65000 {
		b = b[:65000]
	}
	return b
}

func TestVfRobust(t *testing.T) {
	tr := vfOpenTrace(t, "VERIF_TRACE")
	defer tr.Close()
	r := &vfRobust{t: t, tr: tr, rnd: vfRand(8)}
	r.g = &vfGamma{base: vfIPBase(), rnd: vfRand(81)}
	r.la = r.g.ip("10.0.0.1")
	r.uport, r.tport = vfFreePort(t, r.la), vfFreeTCPPort(t, r.la)
	r.sink = vfAllSinks.get(t, r.g.ip("10.0.1.6"), 5060)
	vfAllSinks.get(t, r.g.ip("10.0.2.1"), 5062)
	pcr := NewPreConfigRoute()
	pcr.AddRouteItem("udp", "elsewhere.example", r.g.ip("10.0.1.6")) // the sentinel and most class cases leave by this static route; anything else addressed to the service goes to the backend
	res := NewPreConfigHostResolver()
	for n, ip := range r.g.hosts() {
		res.AddHostIP(n, ip)
	}
	slr := NewSelfLearnRoute()
	recv := vfEnv("VERIF_RECV", "1") == "1"
	p := NewProxy("svc.example.com", 1200, r.la, false, pcr, res, slr, recv, true)
	u, err := NewUDPServerTransport(r.la, r.uport, recv, slr)
	if err != nil {
		t.Fatalf("VF-INFRA %v", err)
	}
	ts := NewTCPServerTransport(r.la, r.tport, recv, p, slr)
	rb := NewRoundRobinBackend()
	item := &ProxyItem{transports: []ServerTransport{u, ts}, backend: rb, msgHandler: p}
	p.AddItem(item)
	rb.AddBackend(&vfBackend{addr: r.g.ip("10.0.4.1") + ":5060"})
	if err := p.Start(); err != nil {
		t.Fatalf("VF-INFRA cannot start the listeners: %v", err)
	}
	r.ucli, err = net.ListenUDP("udp", &net.UDPAddr{IP: net.ParseIP(r.g.ip("10.0.5.5"))})
	if err != nil {
		t.Fatalf("VF-INFRA %v", err)
	}
	// skip rules (one per line): "mutN" skips a mutation batch; "f=v,g=w" skips every class case that has all these field values
	skip := map[string]bool{}
	var rules [][]string
	if f := os.Getenv("VERIF_SKIP"); f != "" {
		if b, err := os.ReadFile(f); err == nil {
			for _, s := range strings.Fields(string(b)) {
				if strings.Contains(s, "=") {
					rules = append(rules, strings.Split(s, ","))
				} else {
					skip[s] = true
				}
			}
		}
	}
	skipped := func(cls string) bool {
		for _, rule := range rules {
			all := true
			for _, fv := range rule {
				if !strings.Contains(" "+cls+" ", " "+fv+" ") {
					all = false
				}
			}
			if all {
				return true
			}
		}
		return false
	}
	// warm up: the first sentinel also proves the set-up works
	r.nsent++
	if !r.waitSentinel(r.nsent, "udp") {
		t.Fatalf("VF-INFRA the sentinel does not come through on an idle proxy")
	}
	r.nsent++
	if !r.waitSentinel(r.nsent, "tcp") {
		t.Fatalf("VF-INFRA the TCP sentinel does not come through on an idle proxy")
	}
	ncase := 0
	// (1) the hostile classes emitted by TLC
	if in := vfEnv("VERIF_IN", ""); in != "" {
		stride := vfEnvInt("VERIF_STRIDE", 1)
		seen := map[string]bool{}
		var all []string
		vfReadBehaviours(t, in, func(raw []byte) {
			if !seen[string(raw)] {
				seen[string(raw)] = true
				all = append(all, string(raw))
			}
		})
		sort.Strings(all)
		nh := func(s string) int { return 11 - strings.Count(s, "\"ok\"") - strings.Count(s, "\"none\"") }
		// cases with a single hostile field first: a crash there explains the pairs that contain it
		sort.SliceStable(all, func(i, j int) bool { return nh(all[i]) < nh(all[j]) })
		k := 0
		for _, raw := range all {
			k++
			var h vfHostile
			if err := json.Unmarshal([]byte(raw), &h); err != nil {
				t.Fatalf("bad class: %v", err)
			}
			// every case with a single hostile field; a stride over the pairs
			if stride > 1 && nh(raw) > 3 && (int64(k)+vfSeed())%int64(stride) != 0 {
				continue
			}
			id := fmt.Sprintf("cls%d", k)
			cls := fmt.Sprintf("kind=%s tr=%s start=%s clen=%s via=%s route=%s from=%s to=%s cseq=%s ruri=%s bulk=%s", h.Kind, h.Tr, h.Start, h.Clen, h.Via, h.Route, h.From, h.To, h.Cseq, h.Ruri, h.Bulk)
			if skipped(cls) {
				continue
			}
			r.curCls = cls
			r.one(id, cls, h.Tr, [][]byte{r.render(&h)}, h.Start == "garbage")
			ncase++
			if r.dead >= 3 {
				break // the proxy no longer serves traffic: the verdict is in the trace, do not wait 5 s per remaining case
			}
		}
	}
	// (2) seeded byte-level mutation of the corpus, in batches
	nmut := vfEnvInt("VERIF_NMUT", 3000)
	batch := 25
	for i := 0; i < nmut; i += batch {
		id := fmt.Sprintf("mut%d", i/batch)
		var raws [][]byte
		for j := 0; j < batch; j++ {
			raws = append(raws, r.mutate([]byte(vfCorpus[r.rnd.Intn(len(vfCorpus))])))
		}
		if skip[id] {
			continue
		}
		if r.dead >= 3 {
			break
		}
		r.curCls = "mutation-batch"
		r.one(id, "mutation-batch", []string{"udp", "tcp"}[(i/batch)%2], raws, false)
		ncase++
	}
	// (2b) truncated streams: a TCP peer sends a proper prefix of a well-formed message - cut inside the start line, inside
	// or between header lines, inside the body - and ends the stream (FIN).  What arrived cannot be decoded into a message:
	// the proxy must close that connection (the client sees end-of-stream), and keep serving
	if r.dead < 3 && !skip["NOTRUNC"] {
		ncut := vfEnvInt("VERIF_NCUT", 24)
		for ci, m := range vfCorpus {
			cuts := map[int]bool{1: true, len(m) - 1: true, strings.Index(m, "\r\n"): true, strings.Index(m, "\r\n") + 2: true, strings.Index(m, "\r\n\r\n"): true, strings.Index(m, "\r\n\r\n") + 2: true}
			for len(cuts) < ncut {
				cuts[1+r.rnd.Intn(len(m)-1)] = true
			}
			var cs []int
			for c := range cuts {
				if c >= 1 && c < len(m) {
					cs = append(cs, c)
				}
			}
			sort.Ints(cs)
			for _, c := range cs {
				id := fmt.Sprintf("trunc%d.%d", ci, c)
				where := "header-section"
				if he := strings.Index(m, "\r\n\r\n"); c > he+3 {
					where = "body"
				} else if c <= strings.Index(m, "\r\n") {
					where = "start-line"
				}
				cls := "truncated-stream cut-in=" + where
				if skipped(cls) || r.dead >= 3 {
					continue
				}
				r.curCls = cls
				r.mark(id, []byte(m[:c]))
				var ms0, ms1 runtime.MemStats
				runtime.ReadMemStats(&ms0)
				cl := vfDial(r.t, r.g.ip("10.0.5.5"), r.la, r.tport)
				cl.write([]byte(m[:c]))
				syscall.Shutdown(cl.fd, syscall.SHUT_WR)
				closed := false
				for end := time.Now().Add(1 * time.Second); time.Now().Before(end); {
					if _, x := cl.poll(); x {
						closed = true
						break
					}
					time.Sleep(time.Millisecond)
				}
				cl.close()
				r.nsent += 2
				ok := r.waitSentinel(r.nsent, "tcp")
				runtime.ReadMemStats(&ms1)
				if ok {
					r.dead = 0
				} else {
					r.dead++
				}
				r.tr.Emit(vfM{"ev": "hostile", "case": id, "cls": cls, "tr": "tcp", "bytes": c, "alloc_kib": int(int64(ms1.TotalAlloc-ms0.TotalAlloc) / 1024), "sentinel": ok, "garbage": true, "closed": closed})
				ncase++
			}
		}
	}
	// (3) out-of-protocol histories emitted by TLC (RobustHist): every message well-formed, all of one dialog,
	// from a client address or from a backend's address, in both orientations of From / To
	if in := vfEnv("VERIF_HIST", ""); in != "" && r.dead < 3 && !skip["NOHIST"] {
		bsock, err := net.ListenUDP("udp", &net.UDPAddr{IP: net.ParseIP(r.g.ip("10.0.4.1")), Port: 5060})
		if err != nil {
			t.Fatalf("VF-INFRA cannot bind the backend's address: %v", err)
		}
		defer bsock.Close()
		stride := vfEnvInt("VERIF_HIST_STRIDE", 100)
		seen := map[string]bool{}
		k := 0
		vfReadBehaviours(t, in, func(raw []byte) {
			if seen[string(raw)] || r.dead >= 3 {
				return
			}
			seen[string(raw)] = true
			var h []vfHistSym
			if err := json.Unmarshal(raw, &h); err != nil {
				t.Fatalf("bad history: %v", err)
			}
			k++
			if len(h) > 2 && stride > 1 && (int64(k)+vfSeed())%int64(stride) != 0 {
				return // every pair; a stride over the triples
			}
			var parts []string
			for _, x := range h {
				parts = append(parts, x.K+"/"+x.P+"/"+x.D)
			}
			cls := "history " + strings.Join(parts, " ")
			id := fmt.Sprintf("hist%d", k)
			if skipped(cls) || skip[id] {
				return
			}
			r.curCls = cls
			r.history(id, cls, h, bsock)
			ncase++
		})
	}
	fmt.Printf("VF cases=%d events=%d\n", ncase, tr.n)
}

type vfHistSym struct {
	K string `json:"k"`
	P string `json:"p"`
	D string `json:"d"`
}

// history sends the messages of one out-of-protocol history (one dialog) and then the sentinel
func (r *vfRobust) history(id, cls string, h []vfHistSym, bsock *net.UDPConn) {
	var ms0, ms1 runtime.MemStats
	runtime.ReadMemStats(&ms0)
	total := 0
	a, b := "<sip:a@a.example>;tag=ta-"+id, "<sip:service@svc.example.com>;tag=tb-"+id
	for i, x := range h {
		from, to := a, b
		if x.D == "rev" {
			from, to = b, a
		}
		notag := func(v string) string { return v[:strings.Index(v, ";")] }
		cvia := fmt.Sprintf("SIP/2.0/UDP %s:5062;branch=z9hG4bK-%s-%d", r.g.ip("10.0.2.1"), id, i)
		own := fmt.Sprintf("SIP/2.0/UDP %s:%d;branch=z9hG4bKown-%s", r.la, r.uport, id)
		var start, cseq string
		var hs []vfHdr
		req := func(method string, dialog bool) {
			start, cseq = method+" sip:service@svc.example.com SIP/2.0", "2 "+method
			hs = append(hs, vfHdr{"Via", cvia}, vfHdr{"Max-Forwards", "70"})
			if !dialog {
				to = notag(to)
			}
		}
		resp := func(status int, method string) {
			start, cseq = fmt.Sprintf("SIP/2.0 %d X", status), "1 "+method
			hs = append(hs, vfHdr{"Via", own}, vfHdr{"Via", fmt.Sprintf("SIP/2.0/UDP %s:5062;branch=z9hG4bK-%s-c", r.g.ip("10.0.2.1"), id)})
		}
		switch x.K {
		case "resp2xx.invite":
			resp(200, "INVITE")
		case "resp1xx.invite":
			resp(180, "INVITE")
		case "resp4xx.invite":
			resp(486, "INVITE")
		case "resp2xx.subscribe":
			resp(200, "SUBSCRIBE")
			hs = append(hs, vfHdr{"Expires", "3600"})
		case "resp2xx.bye":
			resp(200, "BYE")
		case "resp2xx.notag":
			resp(200, "INVITE")
			to = notag(to)
		case "bye":
			req("BYE", true)
		case "reinvite":
			req("INVITE", true)
		case "notify":
			req("NOTIFY", true)
			hs = append(hs, vfHdr{"Subscription-State", []string{"active", "terminated"}[i%2]})
		case "ack":
			req("ACK", true)
		case "info":
			req("INFO", true)
		case "cancel":
			req("CANCEL", false)
		case "newinvite":
			req("INVITE", false)
		case "subscribe":
			req("SUBSCRIBE", false)
			hs = append(hs, vfHdr{"Expires", "3600"})
		}
		hs = append(hs, vfHdr{"From", from}, vfHdr{"To", to}, vfHdr{"Call-ID", id}, vfHdr{"CSeq", cseq}, vfHdr{"Content-Length", "0"})
		raw := vfRender(start, hs, nil)
		r.mark(fmt.Sprintf("%s#%d", id, i), raw)
		r.nsent++
		total += len(raw)
		dst := &net.UDPAddr{IP: net.ParseIP(r.la), Port: r.uport}
		if x.P == "backend" {
			bsock.WriteToUDP(raw, dst)
		} else {
			r.ucli.WriteToUDP(raw, dst)
		}
	}
	r.nsent++
	ok := r.waitSentinel(r.nsent, "udp")
	runtime.ReadMemStats(&ms1)
	if ok {
		r.dead = 0
	} else {
		r.dead++
	}
	r.tr.Emit(vfM{"ev": "hostile", "case": id, "cls": cls, "tr": "udp", "bytes": total, "alloc_kib": int(int64(ms1.TotalAlloc-ms0.TotalAlloc) / 1024), "sentinel": ok, "garbage": false, "closed": false})
}
