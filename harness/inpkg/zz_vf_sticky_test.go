//go:build verif

package main

// Driver for dialog stickiness (C04) and pin lifetime / termination through the
// real message loop (C15): TLC-sampled event histories and random histories
// over 1-50 concurrent dialogs and 2-6 backends, run on a bench whose pool
// holds Backend doubles registered through the real AddBackend -> event path;
// backend responses are injected with the backend's configured source address.

import (
	"encoding/json"
	"fmt"
	"math/rand"
	"strings"
	"testing"
	"time"
)

type vfStickyOp struct {
	Op string `json:"op"`
	D  string `json:"d"`
	M  string `json:"m"`
	B  string `json:"b"`
}

type vfDialog struct {
	cid, ft, tt, fu, tu string
	holder              string   // backend that received the last INVITE of the dialog
	vias                []string // the Via stack the backend saw (for echoing)
	cseq                int
	fromBackend         bool // a backend-issued SUBSCRIBE dialog: backend is the From side
}

type vfSticky struct {
	t       *testing.T
	tr      *vfTrace
	g       *vfGamma
	b       *vfBench
	id      string
	start   time.Time
	backs   []string
	pooled  bool
	nbr     int
	timeout time.Duration
}

func (s *vfSticky) hook(ev string, kv ...interface{}) {
	if ev == "rr.next" && len(kv) > 0 {
		if rb, ok := kv[0].(*RoundRobinBackend); ok && s.b != nil && len(s.b.pools) > 0 && rb == s.b.pools[0] {
			s.pooled = true
		}
	}
	vfBenchHook(ev, kv...)
}

func (s *vfSticky) us() int { return vfUs(time.Since(s.start)) }

func (s *vfSticky) step(cls string, srcIP string, srcPort int, raw []byte) vfStepRes {
	in := vfAlpha(raw)
	if in.Kind == "garbled" {
		s.t.Fatalf("VF-INFRA alpha cannot read a generated message:\n%q", raw)
	}
	s.pooled = false
	t0 := s.us() - 1
	var res vfStepRes
	pm := vfCatch(func() { res = s.b.inject(0, 0, srcIP, srcPort, raw, nil) })
	t1 := s.us() + 1
	if res.ParseErr != "" {
		s.t.Fatalf("VF-INFRA generated message not accepted by the parser (%s):\n%q", res.ParseErr, raw)
	}
	outs := []vfM{}
	for _, o := range res.Outs {
		// the branch the proxy stamped on what it delivered: CSeq method + this branch is the client transaction
		br := ""
		for _, h := range vfAlpha(o.Raw).Hdrs {
			if h.Cls == "via" && len(h.Ents) > 0 {
				for _, p := range h.Ents[0].Params {
					if p[0] == "branch" {
						br = p[1]
					}
				}
				break
			}
		}
		outs = append(outs, vfM{"kind": o.Kind, "addr": o.Addr, "ip": o.IP, "port": o.Port, "proto": o.Proto, "branch": br})
	}
	expires := 0
	substcls := ""
	for _, h := range in.Hdrs {
		if h.Cls == "expires" {
			var n int
			if _, err := fmt.Sscanf(h.Val, "%d", &n); err == nil && n > 0 {
				expires = vfCapUs
				if n < vfCapUs/1000000 {
					expires = n * 1000000
				}
			}
		}
		if h.Cls == "substate" && strings.HasPrefix(h.Val, "terminated") && h.Val != "terminated" {
			substcls = "terminated-with-params"
		}
	}
	mine := in.Kind == "req" && in.Ruri.Host == "svc.example.com"
	s.tr.Emit(vfM{"ev": "step", "case": s.id, "cls": cls, "t0": t0, "t1": t1, "src": vfM{"ip": srcIP, "port": srcPort}, "inmsg": in, "outs": outs,
		"pooled": s.pooled, "expires": expires, "substcls": substcls, "mine": mine, "npool": len(s.b.poolMembers(0)), "panic": pm, "stuck": res.Stuck})
	return res
}

func (s *vfSticky) branch() string { s.nbr++; return fmt.Sprintf("z9hG4bKs%d", s.nbr) }

// a request addressed to the service, sent by the party at uaIP
func (s *vfSticky) request(d *vfDialog, method string, swap bool, toTag bool, extra ...vfHdr) []byte {
	fu, ft, tu, tt := d.fu, d.ft, d.tu, d.tt
	if swap {
		fu, ft, tu, tt = tu, tt, fu, ft
	}
	to := "<" + tu + ">"
	if toTag {
		to += ";tag=" + tt
	}
	d.cseq++
	hs := []vfHdr{{"Via", fmt.Sprintf("SIP/2.0/UDP %s:5062;branch=%s", s.g.ip("10.0.2.1"), s.branch())},
		{"Max-Forwards", "70"}, {s.g.pick("From", "f"), "<" + fu + ">;tag=" + ft}, {s.g.pick("To", "t"), to},
		{s.g.pick("Call-ID", "i"), d.cid}, {"CSeq", fmt.Sprintf("%d %s", d.cseq, method)}}
	hs = append(hs, extra...)
	hs = append(hs, vfHdr{"Content-Length", "0"})
	return vfRender(method+" sip:service@svc.example.com SIP/2.0", hs, nil)
}

// a response sent by a backend (or by an outside party) for the dialog
func (s *vfSticky) response(d *vfDialog, status int, method string, vias []string, withToTag bool, extra ...vfHdr) []byte {
	to := "<" + d.tu + ">"
	if withToTag {
		to += ";tag=" + d.tt
	}
	var hs []vfHdr
	for _, v := range vias {
		hs = append(hs, vfHdr{"Via", v})
	}
	hs = append(hs, vfHdr{"From", "<" + d.fu + ">;tag=" + d.ft}, vfHdr{"To", to}, vfHdr{"Call-ID", d.cid}, vfHdr{"CSeq", fmt.Sprintf("%d %s", d.cseq, method)})
	hs = append(hs, extra...)
	hs = append(hs, vfHdr{"Content-Length", "0"})
	return vfRender(fmt.Sprintf("SIP/2.0 %d X", status), hs, nil)
}

func vfViaLines(raw []byte) []string {
	var r []string
	for _, ln := range strings.Split(strings.SplitN(string(raw), "\r\n\r\n", 2)[0], "\r\n")[1:] {
		if c := strings.IndexByte(ln, ':'); c > 0 && vfCanonName(ln[:c]) == "via" {
			r = append(r, strings.TrimSpace(ln[c+1:]))
		}
	}
	return r
}

func (s *vfSticky) backendAddr(name string) string {
	var i int
	fmt.Sscanf(name, "b%d", &i)
	return s.backs[(i-1)%len(s.backs)]
}

func (s *vfSticky) ipPort(addr string) (string, int) {
	var p int
	i := strings.LastIndexByte(addr, ':')
	fmt.Sscanf(addr[i+1:], "%d", &p)
	return addr[:i], p
}

func (s *vfSticky) newDialog(rnd *rand.Rand, k int) *vfDialog {
	tok := func(n int, extra string) string {
		al := "abcdefghijklmnopqrstuvwxyz0123456789" + extra
		b := make([]byte, n)
		for i := range b {
			b[i] = al[rnd.Intn(len(al))]
		}
		return string(b)
	}
	d := &vfDialog{cid: fmt.Sprintf("%s-%d@%s", tok(6, "-"), k, s.g.base), ft: tok(5, "-") + fmt.Sprint(k), tt: tok(5, "-") + fmt.Sprint(k)}
	d.fu = fmt.Sprintf("sip:%s@a.example", tok(4, ""))
	d.tu = "sip:service@svc.example.com"
	switch rnd.Intn(5) {
	case 0:
		d.tu = d.fu // equal From and To URIs
	case 1:
		d.tu = "tel:+1555" + fmt.Sprint(1000+rnd.Intn(9000))
	}
	if rnd.Intn(6) == 0 {
		d.tt = d.ft
	}
	return d
}

// run one event of the abstract history on dialog d
func (s *vfSticky) event(op vfStickyOp, d *vfDialog, rnd *rand.Rand, expires int) {
	ua := s.g.ip("10.0.5.5")
	switch op.Op {
	case "initial":
		res := s.step("initial", ua, 24000, s.request(d, "INVITE", false, false))
		for _, o := range res.Outs {
			if o.Kind == "backend" {
				d.holder = o.Addr
				d.vias = vfViaLines(o.Raw)
			}
		}
	case "answer":
		if d.holder == "" {
			return
		}
		ip, port := s.ipPort(d.holder)
		var extra []vfHdr
		if expires > 0 {
			extra = append(extra, vfHdr{"Expires", fmt.Sprint(expires)})
		} else if expires == -1 { // an explicit "Expires: 0": the lifetime is max(dialog timeout, 0) = the dialog timeout
			extra = append(extra, vfHdr{"Expires", "0"})
		}
		code := []int{200, 200, 180, 183}[rnd.Intn(4)]
		if op.M == "reject" { // an INVITE of the established dialog is rejected: the dialog lives on
			code = []int{488, 491, 603, 400, 500}[rnd.Intn(5)]
		}
		if strings.HasPrefix(op.M, "elsewhere") { // the backend answers from another socket of its address (not a registered backend address)
			port += 11
			code = 180
			if op.M == "elsewhere-final" {
				code = 200
			}
		}
		d.cseq = 1
		s.step(fmt.Sprintf("answer-%d", code), ip, port, s.response(d, code, "INVITE", d.vias, true, extra...))
	case "indialog":
		swap := rnd.Intn(2) == 0
		var extra []vfHdr
		if op.M == "NOTIFY" {
			extra = append(extra, vfHdr{"Subscription-State", []string{"active", "active;expires=30", "pending"}[rnd.Intn(3)]})
		}
		if expires > 0 { // a request's Expires is not what the pin's lifetime is measured by
			extra = append(extra, vfHdr{"Expires", fmt.Sprint(expires)})
		}
		res := s.step("indialog-"+op.M, ua, 24000, s.request(d, op.M, swap, true, extra...))
		if op.M == "INVITE" {
			for _, o := range res.Outs {
				if o.Kind == "backend" {
					d.holder = o.Addr
					d.vias = vfViaLines(o.Raw)
				}
			}
		}
	case "notify-term":
		st := "terminated"
		if op.M == "reason" {
			st = "terminated;reason=timeout"
		}
		s.step("notify-"+st, ua, 24000, s.request(d, "NOTIFY", rnd.Intn(2) == 0, true, vfHdr{"Subscription-State", st}))
	case "bye":
		if d.holder == "" {
			return
		}
		ip, port := s.ipPort(d.holder)
		vias := []string{fmt.Sprintf("SIP/2.0/UDP %s:5060;branch=%s", s.g.ip("10.0.0.1"), s.branch()), fmt.Sprintf("SIP/2.0/UDP %s:5062;branch=%s", s.g.ip("10.0.2.1"), s.branch())}
		s.step("bye-answered", ip, port, s.response(d, []int{200, 481, 500}[rnd.Intn(3)], "BYE", vias, true))
	case "bsub":
		// the response to a SUBSCRIBE issued by backend b, coming from outside and travelling towards b
		b := s.backendAddr(op.B)
		bip, bport := s.ipPort(b)
		d.holder = b
		d.fromBackend = true
		vias := []string{fmt.Sprintf("SIP/2.0/UDP %s:5060;branch=%s", s.g.ip("10.0.0.1"), s.branch()), fmt.Sprintf("SIP/2.0/UDP %s:%d;branch=%s", bip, bport, s.branch())}
		var extra []vfHdr
		if expires > 0 {
			extra = append(extra, vfHdr{"Expires", fmt.Sprint(expires)})
		} else if expires == -1 { // an explicit "Expires: 0": the lifetime is max(dialog timeout, 0) = the dialog timeout
			extra = append(extra, vfHdr{"Expires", "0"})
		}
		d.cseq = 1
		s.step("subscribe-answered", s.g.ip("10.0.1.1"), 5070, s.response(d, 200, "SUBSCRIBE", vias, true, extra...))
	case "uptime":
		// more than a dialog timeout passes without a purge of the pin table while the dialogs stay young: the state the
		// table's purge clock is in when the last purge was armed before the live pins were stored (written between two
		// loop iterations, behind the barrier).  No pin is touched.
		s.b.proxies[0].dialogBasedBackends.nextCleanTime = time.Now().Add(-time.Second)
	case "timeout":
		// one dialog timeout goes by in real time (the bench of such a history has a short one); dialogs established with a
		// larger Expires are still within their lifetime - every step is bracketed by clock readings, the trace spec claims
		// stickiness only where the lifetime has surely not elapsed
		time.Sleep(s.timeout + 25*time.Millisecond)
	case "unrelated":
		u := s.newDialog(rnd, 900000+s.nbr)
		s.step("unrelated", ua, 24000, s.request(u, []string{"OPTIONS", "MESSAGE", "REGISTER"}[rnd.Intn(3)], false, false))
	}
}

func (s *vfSticky) open(id string, nback int, timeoutMs int) {
	s.id = id
	s.backs = nil
	for i := 1; i <= nback; i++ {
		a := fmt.Sprintf("%s:5060", s.g.ip(fmt.Sprintf("10.0.4.%d", i)))
		s.backs = append(s.backs, a)
		ip, _ := s.ipPort(a)
		vfAllSinks.get(s.t, ip, 5060)
	}
	cfg := vfBenchCfg{Names: "svc.example.com", Hosts: s.g.hosts(), TimeoutMs: timeoutMs,
		Proxies: []vfPCfg{{Addr: s.g.ip("10.0.0.1"), Trans: []vfTCfg{{"UDP", 5060, false}}, Recv: true, Backends: s.backs}}}
	s.b = vfGetBench(s.t, cfg)
	vfSetHook(s.hook)
	s.start = time.Now()
	s.timeout = 1200 * time.Second
	if timeoutMs > 0 {
		s.timeout = time.Duration(timeoutMs) * time.Millisecond
	}
	T := 1200 * 1000000
	if timeoutMs > 0 {
		T = timeoutMs * 1000
	}
	if T > vfCapUs {
		T = vfCapUs
	}
	s.tr.Emit(vfM{"ev": "reset", "case": id, "cfg": vfM{"T": T, "backs": s.backs}})
}

func TestVfSticky(t *testing.T) {
	tr := vfOpenTrace(t, "VERIF_TRACE")
	defer tr.Close()
	s := &vfSticky{t: t, tr: tr}
	s.g = &vfGamma{base: vfIPBase(), rnd: vfRand(4), decor: 1}
	vfAllSinks.get(t, s.g.ip("10.0.2.1"), 5062)
	vfAllSinks.get(t, s.g.ip("10.0.5.5"), 24000)
	rnd := vfRand(44)
	ncase := 0
	mode := vfEnv("VERIF_MODE", "c04")

	if mode == "c04" {
		// (1) leg R: histories sampled by TLC from MC_Sticky
		if in := vfEnv("VERIF_IN", ""); in != "" {
			max := vfEnvInt("VERIF_MAXBEH", 400)
			k := 0
			vfReadBehaviours(t, in, func(raw []byte) {
				k++
				if k > max {
					return
				}
				var ops []vfStickyOp
				if err := json.Unmarshal(raw, &ops); err != nil {
					t.Fatalf("bad behaviour: %v", err)
				}
				tmo := 0
				for _, op := range ops {
					if op.Op == "timeout" {
						tmo = 90 // a history in which a dialog timeout passes runs on a bench with a short one
					}
				}
				s.open(fmt.Sprintf("tlc%d", k), 3, tmo)
				ds := map[string]*vfDialog{}
				for _, op := range ops {
					d := ds[op.D]
					if d == nil && op.D != "" {
						d = s.newDialog(rnd, k*10+len(ds))
						ds[op.D] = d
					}
					exp := 0
					if (op.Op == "answer" || op.Op == "bsub") && op.M == "long" {
						exp = []int{3600, 7200, 86400}[rnd.Intn(3)]
					}
					s.event(op, d, rnd, exp)
				}
				ncase++
			})
		}
		// (2) random histories: 1-50 concurrent dialogs over 2-6 backends
		nrand := vfEnvInt("VERIF_NRAND", 30)
		methods := []string{"ACK", "BYE", "INVITE", "UPDATE", "INFO", "NOTIFY", "SUBSCRIBE", "PRACK", "REFER", "MESSAGE"}
		for i := 0; i < nrand; i++ {
			nd := 1 + rnd.Intn(50)
			tmo, sleeps := 0, 0
			if i%4 == 3 { // every fourth history: a short dialog timeout that passes up to three times while dialogs with a larger Expires live on
				tmo = 70 + rnd.Intn(60)
			}
			longExp := func() int {
				if tmo > 0 && rnd.Intn(2) == 0 {
					return []int{3600, 7200, 86400}[rnd.Intn(3)]
				}
				return 0
			}
			s.open(fmt.Sprintf("rand%d", i), 2+rnd.Intn(5), tmo)
			ds := make([]*vfDialog, nd)
			state := make([]int, nd) // 0 new, 1 invited, 2 answered
			for j := range ds {
				ds[j] = s.newDialog(rnd, i*1000+j)
			}
			steps := 40 + rnd.Intn(200)
			for st := 0; st < steps; st++ {
				j := rnd.Intn(nd)
				d := ds[j]
				switch x := rnd.Intn(20); {
				case state[j] == 0 && x < 14:
					s.event(vfStickyOp{Op: "initial"}, d, rnd, 0)
					state[j] = 1
				case state[j] == 0:
					s.event(vfStickyOp{Op: "bsub", B: fmt.Sprintf("b%d", 1+rnd.Intn(len(s.backs)))}, d, rnd, longExp())
					state[j] = 2
				case state[j] == 1 && x < 12:
					s.event(vfStickyOp{Op: "answer"}, d, rnd, longExp())
					state[j] = 2
				case x == 18 && tmo > 0 && sleeps < 3 && st > 20:
					sleeps++
					s.event(vfStickyOp{Op: "timeout"}, nil, rnd, 0)
				case x < 3:
					s.event(vfStickyOp{Op: "unrelated"}, nil, rnd, 0)
				case x == 19 && st%3 == 0:
					s.event(vfStickyOp{Op: "uptime"}, nil, rnd, 0)
				case x == 3 && state[j] == 2:
					s.event(vfStickyOp{Op: "bye"}, d, rnd, 0)
				case x == 4 && state[j] == 2:
					s.event(vfStickyOp{Op: "notify-term", M: []string{"", "reason"}[rnd.Intn(2)]}, d, rnd, 0)
				case x == 5 && state[j] == 2:
					s.event(vfStickyOp{Op: "answer"}, d, rnd, longExp())
				case x == 6 && state[j] == 2 && d.vias != nil:
					s.event(vfStickyOp{Op: "answer", M: "reject"}, d, rnd, 0)
				case x == 7 && state[j] >= 1 && d.vias != nil && i%3 == 1:
					s.event(vfStickyOp{Op: "answer", M: []string{"elsewhere-prov", "elsewhere-final"}[rnd.Intn(2)]}, d, rnd, 0)
				default:
					s.event(vfStickyOp{Op: "indialog", M: methods[rnd.Intn(len(methods))]}, d, rnd, 0)
				}
			}
			ncase++
		}
	} else {
		// C15 through the loop: short dialog timeout, Expires on the establishing response, probes no later than 60%
		// and no earlier than 100% + margin of the lifetime
		nrand := vfEnvInt("VERIF_NRAND", 12)
		for i := 0; i < nrand; i++ {
			Tms := 60 + rnd.Intn(80)
			s.open(fmt.Sprintf("life%d", i), 2+rnd.Intn(3), Tms)
			nd := 1 + rnd.Intn(12)
			type est struct {
				at   time.Duration
				life time.Duration
			}
			ds := make([]*vfDialog, nd)
			es := make([]est, nd)
			for j := range ds {
				ds[j] = s.newDialog(rnd, 500000+i*1000+j)
				exp := 0
				life := time.Duration(Tms) * time.Millisecond
				if rnd.Intn(5) == 0 {
					exp, life = 1, time.Second
				} else if rnd.Intn(3) == 0 {
					exp = -1
				}
				if rnd.Intn(3) == 0 {
					s.event(vfStickyOp{Op: "bsub", B: fmt.Sprintf("b%d", 1+rnd.Intn(len(s.backs)))}, ds[j], rnd, exp)
				} else {
					s.event(vfStickyOp{Op: "initial"}, ds[j], rnd, 0)
					s.event(vfStickyOp{Op: "answer"}, ds[j], rnd, exp)
				}
				es[j] = est{time.Since(s.start), life}
			}
			// half a dialog timeout later the backend answers some of the INVITE dialogs again (the 2xx after a tagged 18x, the
			// answer to a re-INVITE): the pin's lifetime is promised anew from that response, with its own Expires
			if i%2 == 1 {
				time.Sleep(time.Duration(Tms/2) * time.Millisecond)
				for j, d := range ds {
					if d.fromBackend || d.holder == "" || rnd.Intn(2) == 0 {
						continue
					}
					exp, life := 0, time.Duration(Tms)*time.Millisecond
					if rnd.Intn(3) == 0 {
						exp, life = 1, time.Second
					}
					s.event(vfStickyOp{Op: "answer"}, d, rnd, exp)
					es[j] = est{time.Since(s.start), life}
				}
			}
			for round := 0; round < 3; round++ {
				for j, d := range ds {
					age := time.Since(s.start) - es[j].at
					if age > es[j].life*6/10 && age < es[j].life+20*time.Millisecond {
						if round < 2 {
							continue
						}
						time.Sleep(es[j].life + 20*time.Millisecond - age)
					}
					switch rnd.Intn(6) {
					case 0:
						s.event(vfStickyOp{Op: "unrelated"}, nil, rnd, 0)
					case 1:
						if round == 0 && rnd.Intn(2) == 0 {
							s.event(vfStickyOp{Op: "bye"}, d, rnd, 0)
						}
					}
					s.event(vfStickyOp{Op: "indialog", M: []string{"INFO", "UPDATE", "NOTIFY", "ACK"}[rnd.Intn(4)]}, d, rnd, []int{0, 0, 3600, 2147483647}[rnd.Intn(4)])
				}
				time.Sleep(time.Duration(Tms/2) * time.Millisecond)
			}
			ncase++
		}
	}
	fmt.Printf("VF cases=%d events=%d\n", ncase, tr.n)
}
