//go:build verif

package main

// Driver for C11: the real ParseMessage over a scripted chunking io.Reader
// wrapped in bufio.NewReader exactly as TCPServerTransport.receiveMessage does.
// (1) every (stream, segmentation) pair emitted by TLC from MC_Framing, the
//     model's symbols expanded to 1 KiB blocks so that the model's window of 4
//     symbols is bufio's window of 4096 bytes;
// (2) short concrete sequences under every single and every double byte cut;
// (3) long sequences (header lines to 20 KiB, bodies to 60 KiB, 1-8 messages,
//     CRLF or LF line ends, keep-alives) under random multi-cuts down to 1-byte
//     segments;
// (4) real TCP: TCPServerTransport + a loopback client writing the segments.

import (
	"bufio"
	"encoding/json"
	"fmt"
	"io"
	"math/rand"
	"net"
	"strings"
	"sync"
	"testing"
	"time"
)

type vfChunkReader struct {
	chunks [][]byte
}

func (c *vfChunkReader) Read(p []byte) (int, error) {
	for len(c.chunks) > 0 && len(c.chunks[0]) == 0 {
		c.chunks = c.chunks[1:]
	}
	if len(c.chunks) == 0 {
		return 0, io.EOF
	}
	n := copy(p, c.chunks[0])
	c.chunks[0] = c.chunks[0][n:]
	return n, nil
}

func vfCut(raw []byte, cuts []int) [][]byte {
	var out [][]byte
	prev := 0
	for _, c := range cuts {
		if c <= prev || c >= len(raw) {
			continue
		}
		out = append(out, append([]byte(nil), raw[prev:c]...))
		prev = c
	}
	return append(out, append([]byte(nil), raw[prev:]...))
}

// a generated message, kept structured: the expectation is built from this, not by re-parsing
type vfFMsg struct {
	start string
	hdrs  [][2]string
	body  []byte
}

func (m *vfFMsg) render(eol string) []byte {
	var sb strings.Builder
	sb.WriteString(m.start + eol)
	for _, h := range m.hdrs {
		sb.WriteString(h[0] + ": " + h[1] + eol)
	}
	sb.WriteString(eol)
	return append([]byte(sb.String()), m.body...)
}

func (m *vfFMsg) abs() vfM {
	hs := [][]string{}
	for _, h := range m.hdrs {
		hs = append(hs, []string{vfIntern.Id(h[0]), vfIntern.Id(vfTrimLWS(h[1]))})
	}
	return vfM{"start": vfIntern.Id(m.start), "hdrs": hs, "body": vfBodyId(m.body)}
}

// the abstraction of what the real parser delivered
func vfAbsParsed(msg *Message) vfM {
	start := ""
	if msg.request != nil {
		start = msg.request.method + " " + msg.request.requestURI.String() + " " + msg.request.version
	} else if msg.response != nil {
		start = fmt.Sprintf("%s %d %s", msg.response.version, msg.response.statusCode, msg.response.reason)
	}
	hs := [][]string{}
	for _, h := range msg.headers {
		v, ok := h.value.(string)
		if !ok {
			v = fmt.Sprint(h.value)
		}
		hs = append(hs, []string{vfIntern.Id(h.name), vfIntern.Id(v)})
	}
	return vfM{"start": vfIntern.Id(start), "hdrs": hs, "body": vfBodyId(msg.body)}
}

// parseAll runs the receive loop of TCPServerTransport.receiveMessage on a segmented stream
func vfParseAll(chunks [][]byte) (got []vfM, panicked string) {
	reader := bufio.NewReader(&vfChunkReader{chunks: chunks})
	panicked = vfCatch(func() {
		for {
			msg, err := ParseMessage(reader)
			if err != nil {
				return
			}
			got = append(got, vfAbsParsed(msg))
		}
	})
	if got == nil {
		got = []vfM{}
	}
	return
}

type vfFrameRun struct {
	tr   *vfTrace
	rnd  *rand.Rand
	runs int
}

// check: run one stream under many segmentations; emit one line per DISTINCT outcome
func (f *vfFrameRun) check(id, cls string, msgs []*vfFMsg, raw []byte, segs [][]int) {
	want := []vfM{}
	for _, m := range msgs {
		want = append(want, m.abs())
	}
	type agg struct {
		got  []vfM
		pm   string
		n    int
		cuts []int
	}
	seen := map[string]*agg{}
	for _, cuts := range segs {
		got, pm := vfParseAll(vfCut(raw, cuts))
		f.runs++
		k, _ := json.Marshal(vfM{"g": got, "p": pm})
		if a, ok := seen[string(k)]; ok {
			a.n++
		} else {
			seen[string(k)] = &agg{got, pm, 1, cuts}
		}
	}
	for _, a := range seen {
		c := a.cuts
		if len(c) > 12 {
			c = c[:12]
		}
		f.tr.Emit(vfM{"ev": "frame", "case": id, "cls": fmt.Sprintf("%s len=%d segmentations=%d e.g.cuts=%v", cls, len(raw), a.n, c), "prop": "C11",
			"want": want, "got": a.got, "panic": a.pm})
	}
}

func (f *vfFrameRun) pad(n int, ch byte) string {
	if n < 0 {
		n = 0
	}
	return strings.Repeat(string(ch), n)
}

// ---- (1) the model's streams: symbols -> bytes, 1 KiB per ordinary symbol
func (f *vfFrameRun) fromModel(stream []int, eol string) ([]*vfFMsg, []byte, []int) {
	const U = 1024
	var msgs []*vfFMsg
	var raw []byte
	bounds := []int{0} // byte offset of every symbol boundary
	phase := "skip"
	var cur *vfFMsg
	var line []int
	need := 0
	nh := 0
	flush := func(b []byte) {
		raw = append(raw, b...)
		bounds = append(bounds, len(raw))
	}
	for i := 0; i < len(stream); i++ {
		s := stream[i]
		switch phase {
		case "skip":
			if s == 0 {
				flush([]byte("\r\n"))
				continue
			}
			phase = "start"
			cur = &vfFMsg{}
			line = nil
			fallthrough
		case "start", "hdr":
			if s == 0 {
				// end of a line: render it as a whole, cut points inside are distributed over its symbols
				if len(line) == 0 {
					flush([]byte(eol))
					if need > 0 {
						phase = "body"
					} else {
						msgs = append(msgs, cur)
						phase = "skip"
					}
					continue
				}
				var text string
				if len(line) == 1 && line[0] >= 10 {
					need = (line[0] - 10) * U
					text = fmt.Sprintf("Content-Length: %d", need)
					cur.hdrs = append(cur.hdrs, [2]string{"Content-Length", fmt.Sprint(need)})
				} else if phase == "start" {
					total := len(line) * U
					pre, suf := "INVITE sip:", "@example.com SIP/2.0"
					text = pre + f.pad(total-len(pre)-len(suf), 'u') + suf
					cur.start = text
				} else {
					nh++
					name := fmt.Sprintf("X-H%d", nh)
					val := f.pad(len(line)*U-len(name)-2, byte('a'+nh%26))
					text = name + ": " + val
					cur.hdrs = append(cur.hdrs, [2]string{name, val})
				}
				// distribute the bytes of the line over its symbols, the line end goes with the NL symbol
				per := len(text) / len(line)
				for j := range line {
					if j == len(line)-1 {
						flush([]byte(text[j*per:]))
					} else {
						flush([]byte(text[j*per : (j+1)*per]))
					}
				}
				flush([]byte(eol))
				line = nil
				phase = "hdr"
				continue
			}
			line = append(line, s)
		case "body":
			blk := make([]byte, U)
			for j := range blk {
				blk[j] = byte('0' + s%10)
			}
			if s == 0 {
				copy(blk, []byte("\r\n\r\nINVITE sip:x SIP/2.0\r\n"))
			} else if s >= 10 {
				copy(blk, []byte("Content-Length: 1\r\n\r\nX"))
			}
			cur.body = append(cur.body, blk...)
			flush(blk)
			need -= U
			if need == 0 {
				msgs = append(msgs, cur)
				phase = "skip"
			}
		}
	}
	return msgs, raw, bounds
}

// ---- random messages
func (f *vfFrameRun) randMsg(maxLine, maxBody int) *vfFMsg {
	m := &vfFMsg{}
	if f.rnd.Intn(2) == 0 {
		m.start = "INVITE sip:svc@example.com SIP/2.0"
	} else {
		m.start = fmt.Sprintf("SIP/2.0 %d OK", 100+f.rnd.Intn(500))
	}
	nh := f.rnd.Intn(6)
	for i := 0; i < nh; i++ {
		n := 1 + f.rnd.Intn(40)
		switch f.rnd.Intn(6) {
		case 0:
			n = 1 + f.rnd.Intn(maxLine)
		case 1:
			n = 4096 - 12 + f.rnd.Intn(24) // around the bufio window
		case 2:
			n = 8192 - 12 + f.rnd.Intn(24)
		}
		if n > maxLine {
			n = maxLine
		}
		b := make([]byte, n)
		for j := range b {
			b[j] = byte('a' + f.rnd.Intn(26))
		}
		m.hdrs = append(m.hdrs, [2]string{fmt.Sprintf("X-R%d", i), string(b)})
	}
	bl := 0
	switch f.rnd.Intn(4) {
	case 1:
		bl = 1 + f.rnd.Intn(100)
	case 2:
		bl = 1 + f.rnd.Intn(maxBody)
	}
	m.body = make([]byte, bl)
	for j := range m.body {
		m.body[j] = byte(f.rnd.Intn(256))
	}
	if bl > 60 && f.rnd.Intn(2) == 0 {
		copy(m.body, []byte("\r\n\r\nBYE sip:a SIP/2.0\r\nContent-Length: 3\r\n\r\nabc"))
	}
	pos := f.rnd.Intn(len(m.hdrs) + 1)
	cl := [2]string{[]string{"Content-Length", "l", "content-length"}[f.rnd.Intn(3)], fmt.Sprint(bl)}
	m.hdrs = append(m.hdrs[:pos], append([][2]string{cl}, m.hdrs[pos:]...)...)
	return m
}

func (f *vfFrameRun) concat(msgs []*vfFMsg, eol string) []byte {
	var raw []byte
	for _, m := range msgs {
		for k := f.rnd.Intn(4); k > 0; k-- {
			raw = append(raw, []byte("\r\n")...)
		}
		raw = append(raw, m.render(eol)...)
	}
	for k := f.rnd.Intn(3); k > 0; k-- {
		raw = append(raw, []byte("\r\n")...)
	}
	return raw
}

func TestVfFraming(t *testing.T) {
	tr := vfOpenTrace(t, "VERIF_TRACE")
	defer tr.Close()
	f := &vfFrameRun{tr: tr, rnd: vfRand(11)}
	ncase := 0

	// (1) TLC-emitted (stream, segmentation) pairs
	if in := vfEnv("VERIF_IN", ""); in != "" {
		type pair struct {
			Stream []int `json:"stream"`
			Chunks []int `json:"chunks"`
		}
		byStream := map[string][]pair{}
		var order []string
		vfReadBehaviours(t, in, func(raw []byte) {
			var p pair
			if err := json.Unmarshal(raw, &p); err != nil {
				t.Fatalf("bad pair: %v", err)
			}
			k, _ := json.Marshal(p.Stream)
			if _, ok := byStream[string(k)]; !ok {
				order = append(order, string(k))
			}
			byStream[string(k)] = append(byStream[string(k)], p)
		})
		for si, k := range order {
			ps := byStream[k]
			for _, eol := range []string{"\r\n", "\n"} {
				msgs, raw, bounds := f.fromModel(ps[0].Stream, eol)
				var segs [][]int
				for _, p := range ps {
					var cuts []int
					at := 0
					for _, n := range p.Chunks[:len(p.Chunks)-1] {
						at += n
						// the model cuts at symbol boundaries; refine to a byte offset near it
						c := bounds[at] + []int{0, 0, -1, 1, -2, 3}[f.rnd.Intn(6)]
						cuts = append(cuts, c)
					}
					segs = append(segs, cuts)
				}
				f.check(fmt.Sprintf("tlc-s%d-%s", si, vfEolName(eol)), "model-stream", msgs, raw, segs)
				ncase++
			}
		}
	}

	// (2) short sequences: every single and every double cut
	nshort := vfEnvInt("VERIF_NSHORT", 6)
	for i := 0; i < nshort; i++ {
		nm := 1 + f.rnd.Intn(3)
		var msgs []*vfFMsg
		for j := 0; j < nm; j++ {
			m := f.randMsg(30, 40)
			if len(m.hdrs) > 3 {
				m.hdrs = m.hdrs[len(m.hdrs)-3:]
				has := false
				for _, h := range m.hdrs {
					if vfCanonName(h[0]) == "content-length" {
						has = true
					}
				}
				if !has {
					m.hdrs = append(m.hdrs, [2]string{"Content-Length", fmt.Sprint(len(m.body))})
				}
			}
			msgs = append(msgs, m)
		}
		eol := []string{"\r\n", "\n"}[f.rnd.Intn(2)]
		raw := f.concat(msgs, eol)
		if len(raw) > 420 {
			i--
			continue
		}
		segs := [][]int{{}}
		for a := 1; a < len(raw); a++ {
			segs = append(segs, []int{a})
			for b := a + 1; b < len(raw); b++ {
				segs = append(segs, []int{a, b})
			}
		}
		f.check(fmt.Sprintf("short%d", i), fmt.Sprintf("short-all-single-and-double-cuts eol=%s", vfEolName(eol)), msgs, raw, segs)
		ncase++
	}

	// (3) long sequences, random multi-cuts down to 1-byte segments
	nlong := vfEnvInt("VERIF_NLONG", 60)
	for i := 0; i < nlong; i++ {
		nm := 1 + f.rnd.Intn(8)
		var msgs []*vfFMsg
		for j := 0; j < nm; j++ {
			msgs = append(msgs, f.randMsg(20000, 60000))
		}
		eol := []string{"\r\n", "\r\n", "\n"}[f.rnd.Intn(3)]
		raw := f.concat(msgs, eol)
		var segs [][]int
		for s := 0; s < 6; s++ {
			var cuts []int
			switch f.rnd.Intn(4) {
			case 0: // 1-byte segments over a stretch
				a := f.rnd.Intn(len(raw))
				for c := a; c < a+300 && c < len(raw); c++ {
					cuts = append(cuts, c)
				}
			case 1: // every 4096 +- few
				for c := 4096; c < len(raw); c += 4090 + f.rnd.Intn(12) {
					cuts = append(cuts, c)
				}
			default:
				n := 1 + f.rnd.Intn(40)
				m := map[int]bool{}
				for j := 0; j < n; j++ {
					m[1+f.rnd.Intn(len(raw))] = true
				}
				for c := 1; c < len(raw); c++ {
					if m[c] {
						cuts = append(cuts, c)
					}
				}
			}
			segs = append(segs, cuts)
		}
		f.check(fmt.Sprintf("long%d", i), fmt.Sprintf("long msgs=%d eol=%s", nm, vfEolName(eol)), msgs, raw, segs)
		ncase++
	}

	// (4) real TCP: the real TCPServerTransport with a loopback client writing scripted segments
	ntcp := vfEnvInt("VERIF_NTCP", 8)
	if ntcp > 0 {
		ip := vfIPBase() + "1"
		port := vfFreeTCPPort(t, ip)
		h := &vfFrameHandler{}
		ts := NewTCPServerTransport(ip, port, true, h, NewSelfLearnRoute())
		if err := ts.Start(h); err != nil {
			t.Fatalf("VF-INFRA %v", err)
		}
		for i := 0; i < ntcp; i++ {
			nm := 1 + f.rnd.Intn(5)
			var msgs []*vfFMsg
			for j := 0; j < nm; j++ {
				msgs = append(msgs, f.randMsg(12000, 30000))
			}
			raw := f.concat(msgs, "\r\n")
			h.reset()
			conn, err := net.Dial("tcp", fmt.Sprintf("%s:%d", ip, port))
			if err != nil {
				t.Fatalf("VF-INFRA %v", err)
			}
			conn.(*net.TCPConn).SetNoDelay(true)
			var cuts []int
			for c := 1 + f.rnd.Intn(3000); c < len(raw); c += 1 + f.rnd.Intn(5000) {
				cuts = append(cuts, c)
			}
			for _, ch := range vfCut(raw, cuts) {
				conn.Write(ch)
				if f.rnd.Intn(3) == 0 {
					time.Sleep(200 * time.Microsecond)
				}
			}
			got := h.wait(len(msgs), 3*time.Second)
			conn.Close()
			want := []vfM{}
			for _, m := range msgs {
				want = append(want, m.abs())
			}
			tr.Emit(vfM{"ev": "frame", "case": fmt.Sprintf("tcp%d", i), "cls": fmt.Sprintf("real-tcp msgs=%d len=%d segments=%d", nm, len(raw), len(cuts)+1), "prop": "C11",
				"want": want, "got": got, "panic": ""})
			f.runs++
			ncase++
		}
	}
	// (5) the receive loop of the real TCPServerTransport on a pipe, where one write is one read: every single cut and
	// every pair of cuts 1-4 bytes apart (a segment consisting of nothing but part of a line end, of the blank line
	// that ends the headers, of a short body ...) of short streams - what the reader sees between the socket and bufio
	// is part of the mechanism
	npipe := vfEnvInt("VERIF_NPIPE", 3)
	for i := 0; i < npipe; i++ {
		h := &vfFrameHandler{}
		ts := NewTCPServerTransport(vfIPBase()+"1", 0, true, h, NewSelfLearnRoute())
		ts.msgHandler = h
		nm := 2 + f.rnd.Intn(3)
		var msgs []*vfFMsg
		for j := 0; j < nm; j++ {
			msgs = append(msgs, f.randMsg(30, []int{1, 4, 40}[f.rnd.Intn(3)]))
		}
		raw := f.concat(msgs, "\r\n")
		want := []vfM{}
		for _, m := range msgs {
			want = append(want, m.abs())
		}
		var segs [][]int
		for c := 1; c < len(raw); c++ {
			segs = append(segs, []int{c})
			for k := 1; k <= 4 && c+k < len(raw); k++ {
				segs = append(segs, []int{c, c + k})
			}
		}
		// as in check(): one line per DISTINCT outcome with the number of segmentations that produced it; TLC compares
		type agg struct {
			got  []vfM
			n    int
			cuts []int
		}
		seen := map[string]*agg{}
		for _, cuts := range segs {
			h.reset()
			cli, srv := net.Pipe()
			done := make(chan struct{})
			go func() { ts.receiveMessage(srv); close(done) }()
			go io.Copy(io.Discard, cli) // whatever the transport may write back (a keep-alive pong ...) is read and ignored
			for _, ch := range vfCut(raw, cuts) {
				cli.Write(ch)
			}
			cli.Close()
			select {
			case <-done:
			case <-time.After(20 * time.Second):
				t.Fatalf("VF-INFRA the receive loop did not end after the pipe was closed")
			}
			h.mu.Lock() // the receive loop has ended: everything it handed over is here
			got := append([]vfM{}, h.got...)
			h.mu.Unlock()
			f.runs++
			k, _ := json.Marshal(got)
			if a, ok := seen[string(k)]; ok {
				a.n++
			} else {
				seen[string(k)] = &agg{got, 1, cuts}
			}
		}
		for _, a := range seen {
			tr.Emit(vfM{"ev": "frame", "case": fmt.Sprintf("pipe%d", i), "cls": fmt.Sprintf("pipe msgs=%d len=%d segmentations=%d e.g.cuts=%v", nm, len(raw), a.n, a.cuts), "prop": "C11",
				"want": want, "got": a.got, "panic": ""})
		}
		ncase++
	}
	fmt.Printf("VF cases=%d events=%d runs=%d\n", ncase, tr.n, f.runs)
}

func vfEolName(e string) string {
	if e == "\n" {
		return "LF"
	}
	return "CRLF"
}

type vfFrameHandler struct {
	mu  sync.Mutex
	got []vfM
}

func (h *vfFrameHandler) HandleRawMessage(m *RawMessage) {
	h.mu.Lock()
	h.got = append(h.got, vfAbsParsed(m.Message))
	h.mu.Unlock()
}
func (h *vfFrameHandler) HandleMessage(m *Message)      {}
func (h *vfFrameHandler) ConnectionAccepted(c net.Conn) {}
func (h *vfFrameHandler) reset()                        { h.mu.Lock(); h.got = nil; h.mu.Unlock() }
func (h *vfFrameHandler) wait(n int, d time.Duration) []vfM {
	end := time.Now().Add(d)
	for {
		h.mu.Lock()
		k := len(h.got)
		h.mu.Unlock()
		if k >= n || time.Now().After(end) {
			break
		}
		time.Sleep(time.Millisecond)
	}
	time.Sleep(5 * time.Millisecond)
	h.mu.Lock()
	defer h.mu.Unlock()
	if h.got == nil {
		return []vfM{}
	}
	return append([]vfM(nil), h.got...)
}
