//go:build verif

package main

// Common plumbing of the verification harness (overlaid on a scratch copy of
// the repository; never part of /repo).  Nothing here judges anything: the
// drivers only step the real code, abstract what they observe and write
// NDJSON traces that TLC validates against the specification.

import (
	"bufio"
	"bytes"
	"encoding/json"
	"fmt"
	"math/rand"
	"os"
	"runtime"
	"strconv"
	"sync"
	"testing"
	"time"
)

func vfEnv(k, def string) string {
	if v := os.Getenv(k); v != "" {
		return v
	}
	return def
}

func vfSeed() int64 {
	n, err := strconv.ParseInt(vfEnv("VERIF_SEED", "1"), 10, 64)
	if err != nil {
		return 1
	}
	return n
}

func vfQuick() bool { return vfEnv("VERIF_TIER", "quick") != "thorough" }

func vfEnvInt(k string, def int) int {
	n, err := strconv.Atoi(vfEnv(k, ""))
	if err != nil {
		return def
	}
	return n
}

func vfRand(salt int64) *rand.Rand { return rand.New(rand.NewSource(vfSeed()*1000003 + salt)) }

// ---------------------------------------------------------------- trace file

type vfM = map[string]interface{}

type vfTrace struct {
	mu sync.Mutex
	f  *os.File
	w  *bufio.Writer
	n  int
}

func vfOpenTrace(t testing.TB, envKey string) *vfTrace {
	p := os.Getenv(envKey)
	if p == "" {
		t.Skipf("%s not set: this driver is run by /verif/bin/check", envKey)
	}
	f, err := os.Create(p)
	if err != nil {
		t.Fatalf("cannot create trace: %v", err)
	}
	tr := &vfTrace{f: f, w: bufio.NewWriterSize(f, 1<<20)}
	go tr.watchdog(time.Duration(vfEnvInt("VERIF_HANG_S", 180)) * time.Second)
	return tr
}

// watchdog: a driver that has written nothing for a long time is hanging - in a call into the code under test that
// does not return (a lock that is never released, an endless loop) or in the harness.  It flushes the trace, prints
// every goroutine's stack behind a marker and ends the process; the check decides from the stacks which of the two it is.
func (tr *vfTrace) watchdog(idle time.Duration) {
	if idle <= 0 {
		return
	}
	last, since := -1, time.Now()
	for {
		time.Sleep(2 * time.Second)
		tr.mu.Lock()
		n := tr.n
		tr.mu.Unlock()
		if n != last {
			last, since = n, time.Now()
			continue
		}
		if time.Since(since) < idle {
			continue
		}
		tr.mu.Lock()
		tr.w.Flush()
		tr.mu.Unlock()
		// two samples a few seconds apart: a goroutine that sits in the same frame in both is not passing through
		buf := make([]byte, 8<<20)
		b1 := string(buf[:runtime.Stack(buf, true)])
		time.Sleep(5 * time.Second)
		b2 := string(buf[:runtime.Stack(buf, true)])
		fmt.Printf("\nVF-HANG idle=%ds events=%d\n%s\nVF-HANG-SECOND-SAMPLE\n%s\nVF-HANG-END\n", int(time.Since(since).Seconds()), n, b1, b2)
		os.Exit(7)
	}
}

func (tr *vfTrace) Emit(v interface{}) {
	b, err := json.Marshal(v)
	if err != nil {
		panic(err)
	}
	tr.mu.Lock()
	tr.w.Write(b)
	tr.w.WriteByte('\n')
	tr.n++
	tr.mu.Unlock()
}

func (tr *vfTrace) Close() {
	tr.mu.Lock()
	tr.w.Flush()
	tr.f.Close()
	tr.mu.Unlock()
}

// vfReadBehaviours reads the file TLC wrote with CSVWrite("%1$s", <<ToJson(hist)>>, ...):
// one JSON *string* per line whose content is the JSON behaviour.
func vfReadBehaviours(t testing.TB, path string, into func(raw []byte)) int {
	f, err := os.Open(path)
	if err != nil {
		t.Fatalf("cannot open behaviours: %v", err)
	}
	defer f.Close()
	sc := bufio.NewScanner(f)
	sc.Buffer(make([]byte, 1<<20), 1<<26)
	n := 0
	for sc.Scan() {
		line := bytes.TrimSpace(sc.Bytes())
		if len(line) == 0 {
			continue
		}
		if line[0] == '"' {
			var s string
			if err := json.Unmarshal(line, &s); err != nil {
				t.Fatalf("bad behaviour line: %v", err)
			}
			into([]byte(s))
		} else {
			cp := append([]byte(nil), line...)
			into(cp)
		}
		n++
	}
	return n
}

// ------------------------------------------------------------------- hooks

// goroutine id of the caller (harness side only; used to tie events of one thread together)
func vfGid() string {
	var buf [64]byte
	n := runtime.Stack(buf[:], false)
	// "goroutine 123 [running]:..."
	b := buf[:n]
	b = bytes.TrimPrefix(b, []byte("goroutine "))
	i := bytes.IndexByte(b, ' ')
	if i < 0 {
		return "g?"
	}
	return "g" + string(b[:i])
}

// vfCatch runs f (a call into the code under test) and reports a panic instead of dying:
// the trace then carries a "panic" event which the trace specification rejects.
func vfCatch(f func()) (panicked string) {
	defer func() {
		if r := recover(); r != nil {
			panicked = fmt.Sprint(r)
			if len(panicked) > 200 {
				panicked = panicked[:200]
			}
		}
	}()
	f()
	return ""
}

// vfWithin runs f on its own goroutine (panics of the code under test are caught there) and gives up after d: a call
// that has not come back by then is reported as stuck (its goroutine is abandoned).  d is far beyond anything an
// in-memory operation can need even on a loaded machine.
func vfWithin(d time.Duration, f func()) (panicked string, stuck bool) {
	done := make(chan string, 1)
	go func() { done <- vfCatch(f) }()
	select {
	case pm := <-done:
		return pm, false
	case <-time.After(d):
		return "", true
	}
}

func vfPtr(p interface{}) string { return fmt.Sprintf("%p", p) }

func vfSetHook(h func(ev string, kv ...interface{})) { vtHook = h }

// ------------------------------------------------------------------ doubles

// vfBackend is a Backend double: it records what it is asked to send.
type vfBackend struct {
	addr   string
	mu     sync.Mutex
	got    [][]byte
	closed bool
	fail   bool // an injected fault: the backend cannot be reached, Send reports an error and delivers nothing
	onSend func(b *vfBackend, raw []byte)
}

func (b *vfBackend) Send(msg *Message) error {
	b.mu.Lock()
	f := b.fail
	b.mu.Unlock()
	if f {
		return fmt.Errorf("backend %s unreachable (injected fault)", b.addr)
	}
	raw, err := msg.Bytes()
	if err != nil {
		return err
	}
	b.mu.Lock()
	b.got = append(b.got, raw)
	h := b.onSend
	b.mu.Unlock()
	if h != nil {
		h(b, raw)
	}
	return nil
}
func (b *vfBackend) GetAddress() string { return b.addr }
func (b *vfBackend) Close() {
	b.mu.Lock()
	b.closed = true
	b.mu.Unlock()
}

// vfST is a ServerTransport double (a listener that is never started).
type vfST struct {
	proto string
	addr  string
	port  int
}

func (s *vfST) Start(MessageHandler) error       { return nil }
func (s *vfST) Send(string, int, *Message) error { return nil }
func (s *vfST) GetProtocol() string              { return s.proto }
func (s *vfST) GetAddress() string               { return s.addr }
func (s *vfST) GetPort() int                     { return s.port }
func (s *vfST) IsExit() bool                     { return false }
