//go:build verif

package main

// Driver for the static route lookup (C18): every (table, host) pair emitted
// by TLC, and random larger tables, on real PreConfigRoute objects built from
// YAML through loadConfigFromReader + createPreConfigRoute.

import (
	"encoding/json"
	"fmt"
	"strings"
	"testing"
)

type vfStEntry struct {
	Pat   []string `json:"pat"`
	Proto string   `json:"proto"`
	NHost []string `json:"nhost"`
	NPort int      `json:"nport"`
}
type vfStCase struct {
	Tab  []vfStEntry `json:"tab"`
	Host []string    `json:"host"`
}
type vfStRes struct {
	Found bool     `json:"found"`
	Proto string   `json:"proto"`
	Host  []string `json:"host"`
	Port  int      `json:"port"`
}

func vfChars(s string) []string {
	r := make([]string, 0, len(s))
	for i := 0; i < len(s); i++ {
		r = append(r, s[i:i+1])
	}
	return r
}

// concretisation of the symbols of the model; labels use pairwise disjoint letters apart from '.', '*'
var vfStLabels = []map[string]string{
	{}, // identity
	{"a": "alpha", "b": "bravo", "c": "charlie", "x": "example", "y": "yankee", "X": "Q", "z": "zulu"},
	{"a": "sip-1", "b": "sip-2", "c": "sip-3", "x": "net", "y": "org", "X": "-", "z": "zz"},
	{"a": "A", "b": "B", "c": "C", "x": "co.uk", "y": "de", "X": "0", "z": "Z"},
}

func vfStConc(sym []string, lab map[string]string) string {
	if strings.Join(sym, "") == "default" {
		return "default"
	}
	var sb strings.Builder
	for _, s := range sym {
		if v, ok := lab[s]; ok {
			sb.WriteString(v)
		} else {
			sb.WriteString(s)
		}
	}
	return sb.String()
}

// vfStJunk is a literal dest no looked-up host ever equals: listing it next to a real dest in one configuration entry
// (several dests sharing a next hop, as in the shipped sip-proxy.yaml) must not change what the real dest does
func vfStJunk(i int) string { return fmt.Sprintf("unused-%d.invalid", i) }

// layout 0: one dest per entry; 1: a junk literal listed BEFORE the dest in the same entry; 2: listed AFTER it, and
// neighbouring entries with the same next hop merged into one entry
func vfStBuild(t testing.TB, tab []vfStEntry, lab map[string]string, layout int) *PreConfigRoute {
	var y strings.Builder
	y.WriteString("proxies:\n- name: svc\n")
	if len(tab) > 0 {
		y.WriteString("  route:\n")
	}
	hopOf := func(e vfStEntry) string {
		hop := strings.Join(e.NHost, "")
		if e.NPort != 0 {
			hop = fmt.Sprintf("%s:%d", hop, e.NPort)
		}
		return e.Proto + " " + hop
	}
	for i := 0; i < len(tab); i++ {
		e := tab[i]
		dests := []string{vfStConc(e.Pat, lab)}
		for layout == 2 && i+1 < len(tab) && hopOf(tab[i+1]) == hopOf(e) {
			i++
			dests = append(dests, vfStConc(tab[i].Pat, lab))
		}
		switch layout {
		case 1:
			dests = append([]string{vfStJunk(i)}, dests...)
		case 2:
			dests = append(dests, vfStJunk(i))
		}
		y.WriteString("  - dests:\n")
		for _, d := range dests {
			fmt.Fprintf(&y, "    - %q\n", d)
		}
		fmt.Fprintf(&y, "    protocol: %s\n    nexthop: %q\n", e.Proto, strings.SplitN(hopOf(e), " ", 2)[1])
	}
	cfg, err := loadConfigFromReader(strings.NewReader(y.String()))
	if err != nil || len(cfg.Proxies) != 1 {
		t.Fatalf("generated YAML not loadable: %v\n%s", err, y.String())
	}
	return createPreConfigRoute(cfg.Proxies[0])
}

func vfStRun(t testing.TB, tr *vfTrace, id string, c vfStCase, lab map[string]string, abstractTab []vfStEntry, abstractHost []string) {
	seen := map[string]vfStRes{}
	pm := vfCatch(func() {
		for o := 0; o < 3; o++ {
			pcr := vfStBuild(t, c.Tab, lab, o)
			h := vfStConc(c.Host, lab)
			// other hosts looked up on the same table in between (one that every wildcard of the table matches, one that
			// nothing matches): the answer for h does not depend on what was asked before
			others := []string{"nothing-matches.invalid"}
			for _, e := range c.Tab {
				if p := vfStConc(e.Pat, lab); strings.Contains(p, "*") {
					others = append(others, strings.Replace(p, "*", "zz", -1))
				}
			}
			for i := 0; i < 50; i++ {
				if o > 0 && i%2 == 1 {
					pcr.FindRoute(others[(i/2)%len(others)])
				}
				proto, host, port, err := pcr.FindRoute(h)
				r := vfStRes{Found: err == nil, Proto: proto, Host: vfChars(host), Port: port}
				if err != nil {
					r = vfStRes{Found: false, Proto: "", Host: []string{}, Port: 0}
				}
				b, _ := json.Marshal(r)
				seen[string(b)] = r
			}
		}
	})
	res := make([]vfStRes, 0, len(seen))
	for _, r := range seen {
		res = append(res, r)
	}
	tr.Emit(vfM{"ev": "lookup", "case": id, "tab": abstractTab, "host": abstractHost, "results": res, "panic": pm})
}

func TestVfStatic(t *testing.T) {
	tr := vfOpenTrace(t, "VERIF_TRACE")
	defer tr.Close()
	n := 0
	if in := vfEnv("VERIF_IN", ""); in != "" {
		k := 0
		vfReadBehaviours(t, in, func(raw []byte) {
			k++
			var c vfStCase
			if err := json.Unmarshal(raw, &c); err != nil {
				t.Fatalf("bad case: %v", err)
			}
			if c.Tab == nil {
				c.Tab = []vfStEntry{}
			}
			li := int((int64(k) + vfSeed()) % int64(len(vfStLabels)))
			vfStRun(t, tr, fmt.Sprintf("tlc%d-l%d", k, li), c, vfStLabels[li], c.Tab, c.Host)
			n++
		})
	}
	// random larger tables (identity abstraction: the characters themselves)
	rnd := vfRand(18)
	labels := []string{"a", "b", "ab", "example", "com", "net", "sip", "x1", "default", "a-b"}
	mkHost := func() string {
		k := 1 + rnd.Intn(3)
		p := make([]string, k)
		for i := range p {
			p[i] = labels[rnd.Intn(len(labels))]
		}
		return strings.Join(p, ".")
	}
	mkPat := func() string {
		switch rnd.Intn(8) {
		case 0:
			return "default"
		case 1:
			return "*"
		}
		h := mkHost()
		parts := strings.Split(h, ".")
		switch rnd.Intn(5) {
		case 0:
			parts[0] = "*"
		case 1:
			parts[len(parts)-1] = "*"
		case 2:
			parts[rnd.Intn(len(parts))] = "*"
			parts[rnd.Intn(len(parts))] = "*"
		case 3:
			// dotted look-alike: one '.' replaced by another character
			s := strings.Join(parts, ".")
			if i := strings.IndexByte(s, '.'); i >= 0 {
				return s[:i] + "X" + s[i+1:]
			}
		}
		return strings.Join(parts, ".")
	}
	nrand := vfEnvInt("VERIF_NRAND", 300)
	protos := []string{"udp", "tcp", "tls", "TLS", "UDP"}
	for i := 0; i < nrand; i++ {
		ne := 3 + rnd.Intn(10)
		var c vfStCase
		used := map[string]bool{}
		for j := 0; j < ne; j++ {
			p := mkPat()
			if used[p] {
				continue
			}
			used[p] = true
			e := vfStEntry{Pat: vfChars(p), Proto: protos[rnd.Intn(len(protos))], NHost: vfChars(fmt.Sprintf("hop%d", j))}
			switch rnd.Intn(4) {
			case 0:
				e.NPort = 1024 + rnd.Intn(60000)
			case 1: // a default port written out (5060 on a tls hop and 5061 on a udp hop are explicit choices, not defaults)
				e.NPort = []int{5060, 5061}[rnd.Intn(2)]
			}
			c.Tab = append(c.Tab, e)
		}
		for j := 0; j < 6; j++ {
			h := mkHost()
			if rnd.Intn(4) == 0 && len(c.Tab) > 0 {
				// a host derived from a pattern of the table
				h = strings.Replace(strings.Join(c.Tab[rnd.Intn(len(c.Tab))].Pat, ""), "*", labels[rnd.Intn(len(labels))], -1)
			}
			c.Host = vfChars(h)
			vfStRun(t, tr, fmt.Sprintf("rand%d-%d", i, j), c, vfStLabels[0], c.Tab, c.Host)
			n++
		}
	}
	fmt.Printf("VF cases=%d events=%d\n", n, tr.n)
}
