//go:build verif

package main

// Driver for the Pins family (C15): TLC-sampled and random histories of
// pin / lookup / terminate / time-passes on a real DialogBasedBackend, in
// real time.  Every call is bracketed by two clock readings; the trace is
// judged by Trace_Pins.tla.

import (
	"encoding/json"
	"fmt"
	"sort"
	"sync"
	"testing"
	"time"
)

type vfPinOp struct {
	Op string `json:"op"`
	K  string `json:"k"`
	B  string `json:"b"`
	E  int    `json:"e"`
	D  int    `json:"d"`
}

const vfCapUs = 1000000000 // values beyond 1000 s are "far future" for every run here

func vfUs(d time.Duration) int {
	us := int64(d / time.Microsecond)
	if us > vfCapUs {
		return vfCapUs
	}
	if us < -vfCapUs {
		return -vfCapUs
	}
	return int(us)
}

type vfPinCase struct {
	id    string
	start time.Time
	dbb   *DialogBasedBackend
	backs map[string]*vfBackend
	ev    []vfM
}

func newVfPinCase(id string, T time.Duration) *vfPinCase {
	c := &vfPinCase{id: id, backs: map[string]*vfBackend{}}
	c.dbb = NewDialogBasedBackend(1)
	c.start = time.Now()
	c.dbb.timeout = T
	c.dbb.nextCleanTime = c.start.Add(T)
	c.ev = append(c.ev, vfM{"ev": "reset", "case": id, "T": vfUs(T)})
	return c
}

func (c *vfPinCase) back(name string) *vfBackend {
	b, ok := c.backs[name]
	if !ok {
		b = &vfBackend{addr: name}
		c.backs[name] = b
	}
	return b
}

func (c *vfPinCase) keys() []string {
	ks := make([]string, 0, len(c.dbb.backends))
	for k := range c.dbb.backends {
		ks = append(ks, k)
	}
	sort.Strings(ks)
	return ks
}

// expires is the Expires header value in seconds (0 = absent)
func (c *vfPinCase) add(k, b string, expires int) {
	t0 := time.Since(c.start)
	c.dbb.AddBackend(k, c.back(b), expires)
	t1 := time.Since(c.start)
	eUs := 0
	if expires > 0 {
		eUs = vfCapUs
		if int64(expires) < vfCapUs/1000000 {
			eUs = expires * 1000000
		}
	}
	exp := 0
	if v, ok := c.dbb.backends[k]; ok {
		exp = vfUs(v.expire.Sub(c.start))
	}
	c.ev = append(c.ev, vfM{"ev": "add", "k": k, "b": b, "e": eUs, "t0": vfUs(t0) - 1, "t1": vfUs(t1) + 1,
		"keys": c.keys(), "exp": exp, "nc": vfUs(c.dbb.nextCleanTime.Sub(c.start))})
}

func (c *vfPinCase) get(k string) {
	t0 := time.Since(c.start)
	b, err := c.dbb.GetBackend(k)
	t1 := time.Since(c.start)
	name := ""
	if err == nil && b != nil {
		name = b.GetAddress()
	}
	c.ev = append(c.ev, vfM{"ev": "get", "k": k, "hit": err == nil, "b": name, "t0": vfUs(t0) - 1, "t1": vfUs(t1) + 1})
}

func (c *vfPinCase) rm(k string) {
	c.dbb.RemoveDialog(k)
	c.ev = append(c.ev, vfM{"ev": "rm", "k": k})
}

func (c *vfPinCase) sleepUntil(off time.Duration) {
	d := off - time.Since(c.start)
	if d > 0 {
		time.Sleep(d)
	}
}

func TestVfPins(t *testing.T) {
	tr := vfOpenTrace(t, "VERIF_TRACE")
	defer tr.Close()
	var mu sync.Mutex
	var done []*vfPinCase
	var wg sync.WaitGroup
	sem := make(chan struct{}, vfEnvInt("VERIF_PAR", 3000))

	// (1) leg R: behaviours sampled by TLC from MC_Pins (model: T = 2 ticks, Expires 3 ticks = 1 s, 1000 = 2^31-1 s)
	tick := 334 * time.Millisecond
	if in := vfEnv("VERIF_IN", ""); in != "" {
		max := vfEnvInt("VERIF_MAXBEH", 1500)
		stride := vfEnvInt("VERIF_STRIDE", 1)
		k := 0
		taken := 0
		vfReadBehaviours(t, in, func(raw []byte) {
			k++
			if taken >= max || (stride > 1 && (int64(k)+vfSeed())%int64(stride) != 0) {
				return
			}
			taken++
			var ops []vfPinOp
			if err := json.Unmarshal(raw, &ops); err != nil {
				t.Fatalf("bad behaviour: %v", err)
			}
			id := fmt.Sprintf("tlc%d", k)
			wg.Add(1)
			sem <- struct{}{}
			go func() {
				defer wg.Done()
				defer func() { <-sem }()
				c := newVfPinCase(id, 2*tick)
				at := time.Duration(0)
				for i, op := range ops {
					at += time.Duration(op.D) * tick
					// operations of the same model instant keep their order, 2 ms apart, well inside the tick
					c.sleepUntil(at + time.Duration(i+1)*2*time.Millisecond + 20*time.Millisecond)
					switch op.Op {
					case "add":
						e := 0
						if op.E == 3 {
							e = 1
						} else if op.E >= 1000 {
							e = 2147483647
						}
						c.add(op.K, op.B, e)
					case "get":
						c.get(op.K)
					case "rm":
						c.rm(op.K)
					}
				}
				mu.Lock()
				done = append(done, c)
				mu.Unlock()
			}()
		})
	}

	// (2) random histories beyond the model bounds: 1-200 dialogs, millisecond lifetimes,
	// probes no later than 60% and no earlier than 100% + margin of the lifetime
	nrand := vfEnvInt("VERIF_NRAND", 40)
	rnd := vfRand(15)
	for i := 0; i < nrand; i++ {
		seed := rnd.Int63()
		id := fmt.Sprintf("rand%d", i)
		wg.Add(1)
		sem <- struct{}{}
		go func() {
			defer wg.Done()
			defer func() { <-sem }()
			lr := vfRand(seed)
			T := time.Duration(30+lr.Intn(50)) * time.Millisecond
			c := newVfPinCase(id, T)
			nd := 1 + lr.Intn(200)
			if lr.Intn(3) == 0 {
				nd = 1 + lr.Intn(8)
			}
			type pin struct {
				at   time.Duration
				life time.Duration
			}
			pins := map[string]pin{}
			steps := 60 + lr.Intn(200)
			for s := 0; s < steps; s++ {
				k := fmt.Sprintf("d%d", lr.Intn(nd))
				switch x := lr.Intn(10); {
				case x < 4:
					e := 0
					life := T
					switch lr.Intn(12) {
					case 0:
						e, life = 2147483647, 1000*time.Second
					case 1:
						e, life = 1, time.Second
					case 2:
						e, life = 1+lr.Intn(4000), 1000*time.Second // irrelevant exact value: never probed after expiry
						if time.Duration(e)*time.Second < life {
							life = time.Duration(e) * time.Second
						}
					}
					c.add(k, fmt.Sprintf("b%d", lr.Intn(4)), e)
					pins[k] = pin{time.Since(c.start), life}
				case x < 8:
					// probe early (<= 60%) or late (>= 100% + margin), never in between
					if p, ok := pins[k]; ok {
						age := time.Since(c.start) - p.at
						if age > p.life*6/10 && age < p.life+15*time.Millisecond {
							if p.life < 200*time.Millisecond {
								c.sleepUntil(p.at + p.life + 15*time.Millisecond)
							} else {
								continue
							}
						}
					}
					c.get(k)
				case x < 9:
					c.rm(k)
					delete(pins, k)
				default:
					time.Sleep(time.Duration(lr.Intn(int(T/time.Millisecond))) * time.Millisecond)
				}
			}
			mu.Lock()
			done = append(done, c)
			mu.Unlock()
		}()
	}
	wg.Wait()
	sort.Slice(done, func(i, j int) bool { return done[i].id < done[j].id })
	for _, c := range done {
		for _, e := range c.ev {
			tr.Emit(e)
		}
	}
	fmt.Printf("VF cases=%d events=%d\n", len(done), tr.n)
}
