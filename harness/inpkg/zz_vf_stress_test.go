//go:build verif

package main

// Driver for C09: 2-4 listeners of ONE service started by startProxy from YAML
// (one shared SelfLearnRoute, static routes, host resolver), UDP and TCP
// clients in parallel, real UDP and TCP backends that answer, a backend given
// by host name whose address set is churned through the real resolver path,
// bursts through the buffer pool, the transport table, and next hops named by
// host names that only /etc/hosts knows.
//   VERIF_MODE=race  : the binary is built with -race and the hooks stay inert
//                      (no synchronisation added): judged on race reports and
//                      fatal errors only;
//   VERIF_MODE=probe : hooks on, no -race: delivery accounting (what the proxy
//                      received must reach exactly one backend; every response
//                      returns to its sender), bracket overlaps on the learnt
//                      route table, progress after the load (sentinels).

import (
	"bufio"
	"fmt"
	"net"
	"runtime"
	"strings"
	"sync"
	"sync/atomic"
	"testing"
	"time"
)

type vfCounter struct {
	mu sync.Mutex
	m  map[string]int
}

func (c *vfCounter) add(k string) {
	c.mu.Lock()
	if c.m == nil {
		c.m = map[string]int{}
	}
	c.m[k]++
	c.mu.Unlock()
}
func (c *vfCounter) snapshot() map[string]int {
	c.mu.Lock()
	defer c.mu.Unlock()
	r := make(map[string]int, len(c.m))
	for k, v := range c.m {
		r[k] = v
	}
	return r
}

func vfHeaderOf(raw string, name string) string {
	for _, ln := range strings.Split(strings.SplitN(raw, "\r\n\r\n", 2)[0], "\r\n")[1:] {
		if c := strings.IndexByte(ln, ':'); c > 0 && vfCanonName(ln[:c]) == name {
			return strings.TrimSpace(ln[c+1:])
		}
	}
	return ""
}

// the 200 a backend sends for a request
func vfAnswer(req string) []byte {
	var sb strings.Builder
	sb.WriteString("SIP/2.0 200 OK\r\n")
	for _, ln := range strings.Split(strings.SplitN(req, "\r\n\r\n", 2)[0], "\r\n")[1:] {
		c := strings.IndexByte(ln, ':')
		if c <= 0 {
			continue
		}
		switch vfCanonName(ln[:c]) {
		case "via", "from", "call-id", "cseq":
			sb.WriteString(ln + "\r\n")
		case "to":
			sb.WriteString(ln + ";tag=be\r\n")
		}
	}
	sb.WriteString("Content-Length: 0\r\n\r\n")
	return []byte(sb.String())
}

type vfStress struct {
	t        *testing.T
	g        *vfGamma
	la       string
	got      vfCounter // requests seen at backends, by Call-ID
	resp     vfCounter // responses seen at clients, by Call-ID
	routed   vfCounter // requests seen at the static-route / Route sinks
	udpRecv  int64
	tcpMsg   int64
	overlap  int64
	slActive int32
	stop     chan struct{}
	routedBy sync.Map // client name -> *int64: how many of its routed requests have reached the next hop
}

func (s *vfStress) hook(ev string, kv ...interface{}) {
	switch ev {
	case "udp.recv":
		atomic.AddInt64(&s.udpRecv, 1)
	case "tcp.msg":
		if len(kv) > 2 && kv[2] == true {
			atomic.AddInt64(&s.tcpMsg, 1)
		}
	case "sl.begin":
		if atomic.AddInt32(&s.slActive, 1) > 1 {
			atomic.AddInt64(&s.overlap, 1)
		}
	case "sl.end":
		atomic.AddInt32(&s.slActive, -1)
	}
}

func (s *vfStress) udpBackend(addr string) {
	a, _ := net.ResolveUDPAddr("udp", addr)
	c, err := net.ListenUDP("udp", a)
	if err != nil {
		s.t.Fatalf("VF-INFRA backend %s: %v", addr, err)
	}
	c.SetReadBuffer(8 << 20)
	go func() {
		buf := make([]byte, 65536)
		for {
			n, _, err := c.ReadFromUDP(buf)
			if err != nil {
				return
			}
			req := string(buf[:n])
			if strings.HasPrefix(req, "SIP/2.0") {
				continue
			}
			s.got.add(vfHeaderOf(req, "call-id"))
			// answer to the proxy's own Via (its listener)
			via := vfHeaderOf(req, "via")
			hp := strings.Fields(strings.SplitN(via, ";", 2)[0])
			if len(hp) == 2 {
				if ra, err := net.ResolveUDPAddr("udp", hp[1]); err == nil {
					c.WriteToUDP(vfAnswer(req), ra)
				}
			}
		}
	}()
	go func() { <-s.stop; c.Close() }()
}

func (s *vfStress) tcpBackend(addr string) {
	ln, err := net.Listen("tcp", addr)
	if err != nil {
		s.t.Fatalf("VF-INFRA backend %s: %v", addr, err)
	}
	go func() {
		for {
			conn, err := ln.Accept()
			if err != nil {
				return
			}
			go func() {
				var pending []byte
				buf := make([]byte, 65536)
				for {
					n, err := conn.Read(buf)
					if err != nil {
						return
					}
					pending = append(pending, buf[:n]...)
					var msgs [][]byte
					msgs, pending = vfFrame(pending)
					for _, m := range msgs {
						req := string(m)
						if strings.HasPrefix(req, "SIP/2.0") {
							continue
						}
						s.got.add(vfHeaderOf(req, "call-id"))
						conn.Write(vfAnswer(req))
					}
				}
			}()
		}
	}()
	go func() { <-s.stop; ln.Close() }()
}

func (s *vfStress) routeSink(addr string) {
	a, _ := net.ResolveUDPAddr("udp", addr)
	c, err := net.ListenUDP("udp", a)
	if err != nil {
		s.t.Fatalf("VF-INFRA sink %s: %v", addr, err)
	}
	c.SetReadBuffer(8 << 20)
	go func() {
		buf := make([]byte, 65536)
		for {
			n, _, err := c.ReadFromUDP(buf)
			if err != nil {
				return
			}
			id := vfHeaderOf(string(buf[:n]), "call-id")
			s.routed.add(id)
			if i := strings.LastIndexByte(id, '-'); i > 0 {
				if v, ok := s.routedBy.Load(id[:i]); ok {
					atomic.AddInt64(v.(*int64), 1)
				}
			}
		}
	}()
	go func() { <-s.stop; c.Close() }()
}

// every request names a To host never seen before: the static-route lookup of every listener works on fresh keys
func (s *vfStress) request(id, sentby, proto string, route string) []byte {
	hs := []vfHdr{}
	if route != "" {
		hs = append(hs, vfHdr{"Route", route})
	}
	hs = append(hs, vfHdr{"Via", fmt.Sprintf("SIP/2.0/%s %s;branch=z9hG4bK%s;rport", proto, sentby, id)}, vfHdr{"Max-Forwards", "70"},
		vfHdr{"From", "<sip:c@c.example>;tag=c"}, vfHdr{"To", "<sip:service@t" + strings.ToLower(id) + ".example>"}, vfHdr{"Call-ID", id}, vfHdr{"CSeq", "1 OPTIONS"}, vfHdr{"Content-Length", "0"})
	return vfRender("OPTIONS sip:service@svc.example.com SIP/2.0", hs, nil)
}

// one UDP client: n requests, at most 32 outstanding
func (s *vfStress) udpClient(wg *sync.WaitGroup, name string, port int, n int, route string, sent *vfCounter) {
	defer wg.Done()
	c, err := net.ListenUDP("udp", &net.UDPAddr{IP: net.ParseIP(s.g.ip("10.0.5.5"))})
	if err != nil {
		return
	}
	defer c.Close()
	c.SetReadBuffer(4 << 20)
	sentby := c.LocalAddr().String()
	var got int64
	done := make(chan struct{})
	go func() {
		buf := make([]byte, 65536)
		for {
			c.SetReadDeadline(time.Now().Add(2 * time.Second))
			k, _, err := c.ReadFromUDP(buf)
			if err != nil {
				close(done)
				return
			}
			s.resp.add(vfHeaderOf(string(buf[:k]), "call-id"))
			atomic.AddInt64(&got, 1)
		}
	}()
	to := &net.UDPAddr{IP: net.ParseIP(s.la), Port: port}
	var through int64
	stalls := 0
	if route != "" {
		s.routedBy.Store(name, &through)
	}
	for i := 0; i < n; i++ {
		id := fmt.Sprintf("%s-%d", name, i)
		w := 0
		for ; route == "" && int64(i)-atomic.LoadInt64(&got) > 32 && w < 3000; w++ {
			time.Sleep(100 * time.Microsecond)
		}
		for ; route != "" && int64(i)-atomic.LoadInt64(&through) > 32 && w < 3000; w++ {
			time.Sleep(100 * time.Microsecond)
		}
		if w >= 3000 {
			stalls++
			if stalls >= 3 {
				break // answers have stopped coming: what was sent so far is what gets accounted
			}
		} else {
			stalls = 0
		}
		sent.add(id)
		rt := route
		if strings.Contains(rt, "localhost") {
			// a different spelling each time: names that only the system resolver knows keep being looked up
			b := []byte("localhost")
			for j := range b {
				if (i>>uint(j))&1 == 1 {
					b[j] -= 32
				}
			}
			rt = strings.Replace(rt, "localhost", string(b), 1)
		}
		c.WriteToUDP(s.request(id, sentby, "UDP", rt), to)
	}
	if route == "" {
		end := time.Now().Add(3 * time.Second)
		for atomic.LoadInt64(&got) < int64(n) && time.Now().Before(end) {
			time.Sleep(time.Millisecond)
		}
	}
	c.SetReadDeadline(time.Now())
	<-done
}

func (s *vfStress) tcpClient(wg *sync.WaitGroup, name string, port int, n int, sent *vfCounter) {
	defer wg.Done()
	d := net.Dialer{LocalAddr: &net.TCPAddr{IP: net.ParseIP(s.g.ip("10.0.5.5"))}, Timeout: 2 * time.Second}
	conn, err := d.Dial("tcp", fmt.Sprintf("%s:%d", s.la, port))
	if err != nil {
		return
	}
	defer conn.Close()
	sentby := conn.LocalAddr().String()
	var got int64
	stalls := 0
	done := make(chan struct{})
	go func() {
		r := bufio.NewReader(conn)
		var pending []byte
		buf := make([]byte, 65536)
		for {
			conn.SetReadDeadline(time.Now().Add(2 * time.Second))
			k, err := r.Read(buf)
			if err != nil {
				close(done)
				return
			}
			pending = append(pending, buf[:k]...)
			var msgs [][]byte
			msgs, pending = vfFrame(pending)
			for _, m := range msgs {
				s.resp.add(vfHeaderOf(string(m), "call-id"))
				atomic.AddInt64(&got, 1)
			}
		}
	}()
	for i := 0; i < n; i++ {
		id := fmt.Sprintf("%s-%d", name, i)
		w := 0
		for ; int64(i)-atomic.LoadInt64(&got) > 32 && w < 3000; w++ {
			time.Sleep(100 * time.Microsecond)
		}
		if w >= 3000 {
			stalls++
			if stalls >= 3 {
				break
			}
		} else {
			stalls = 0
		}
		sent.add(id)
		conn.Write(s.request(id, sentby, "TCP", ""))
	}
	end := time.Now().Add(3 * time.Second)
	for atomic.LoadInt64(&got) < int64(n) && time.Now().Before(end) {
		time.Sleep(time.Millisecond)
	}
	conn.SetReadDeadline(time.Now())
	<-done
}

func TestVfStress(t *testing.T) {
	mode := vfEnv("VERIF_MODE", "probe")
	var tr *vfTrace
	if mode == "probe" {
		tr = vfOpenTrace(t, "VERIF_TRACE")
		defer tr.Close()
	}
	s := &vfStress{t: t, stop: make(chan struct{})}
	s.g = &vfGamma{base: vfIPBase(), rnd: vfRand(9)}
	s.la = s.g.ip("10.0.0.1")
	rnd := vfRand(90)
	if mode == "probe" {
		vfSetHook(s.hook)
	}
	dynamicHostResolver.Stop()
	dynamicHostResolver = NewDynamicHostResolver(36000)
	time.Sleep(20 * time.Millisecond)
	nl := 2 + int(vfSeed()%3)
	type lst struct{ udp, tcp int }
	var ls []lst
	ub, tb := s.g.ip("10.0.4.1")+":5060", s.g.ip("10.0.4.2")+":5060"
	s.udpBackend(ub)
	s.tcpBackend(tb)
	dyn := []string{s.g.ip("10.0.7.1"), s.g.ip("10.0.7.2"), s.g.ip("10.0.7.3")}
	for _, d := range dyn {
		s.udpBackend(d + ":5070")
	}
	s.routeSink(s.g.ip("10.0.1.6") + ":5060")
	lhPort := vfFreePort(t, "127.0.0.1")
	s.routeSink(fmt.Sprintf("127.0.0.1:%d", lhPort))
	var y strings.Builder
	y.WriteString("proxies:\n- name: svc.example.com\n  listens:\n")
	for i := 0; i < nl; i++ {
		l := lst{vfFreePort(t, s.la), vfFreeTCPPort(t, s.la)}
		ls = append(ls, l)
		fmt.Fprintf(&y, "  - address: %s\n    udp-port: %d\n    tcp-port: %d\n    backends:\n    - udp://%s\n    - tcp://%s\n    - udp://bk.verif.invalid:5070\n", s.la, l.udp, l.tcp, ub, tb)
	}
	// one more listener whose group consists of a single host-name backend: under churn the group runs EMPTY while
	// traffic flows (requests in that window are dropped, which is correct); afterwards it must serve again
	solo := lst{vfFreePort(t, s.la), vfFreeTCPPort(t, s.la)}
	ls = append(ls, solo)
	fmt.Fprintf(&y, "  - address: %s\n    udp-port: %d\n    tcp-port: %d\n    backends:\n    - udp://solo.verif.invalid:5070\n", s.la, solo.udp, solo.tcp)
	fmt.Fprintf(&y, "  route:\n  - dests:\n    - routed.example\n    protocol: udp\n    nexthop: %s\n  hosts:\n  - name: proxy.example.com\n    ip: %s\n", s.g.ip("10.0.1.6"), s.la)
	cfg, err := loadConfigFromReader(strings.NewReader(y.String()))
	if err != nil {
		t.Fatalf("VF-INFRA yaml: %v", err)
	}
	if err := startProxy(cfg.Proxies[0], createPreConfigRoute(cfg.Proxies[0]), createPreConfigHostResolver(cfg.Hosts, cfg.Proxies[0])); err != nil {
		t.Fatalf("VF-INFRA startProxy: %v", err)
	}
	time.Sleep(50 * time.Millisecond)
	dynamicHostResolver.addressResolved("solo.verif.invalid", []string{dyn[0]}, nil)
	per := vfEnvInt("VERIF_PER", 400)
	phases := []struct {
		name  string
		procs int
		churn bool
	}{{"steady-p16", 16, false}, {"churn-p16", 16, true}, {"steady-p2", 2, false}, {"churn-p4", 4, true}, {"churn-p1", 1, true}}
	if vfQuick() {
		phases = phases[:3]
	}
	for pi, ph := range phases {
		old := runtime.GOMAXPROCS(ph.procs)
		var sent, sentRoute vfCounter
		r0, m0 := atomic.LoadInt64(&s.udpRecv), atomic.LoadInt64(&s.tcpMsg)
		var wg sync.WaitGroup
		stopChurn := make(chan struct{})
		var cw sync.WaitGroup
		var churnStuck int32
		resolved := func(name string, set []string) bool { // a membership change that does not come back is an observation, not a hang of the driver
			if atomic.LoadInt32(&churnStuck) != 0 {
				return false
			}
			if _, stuck := vfWithin(30*time.Second, func() { dynamicHostResolver.addressResolved(name, set, nil) }); stuck {
				atomic.StoreInt32(&churnStuck, 1)
				return false
			}
			return true
		}
		if ph.churn {
			cw.Add(2)
			go func() {
				defer cw.Done()
				lr := vfRand(int64(1000 + pi))
				for {
					select {
					case <-stopChurn:
						resolved("bk.verif.invalid", []string{})
						return
					default:
					}
					var set []string
					for _, d := range dyn {
						if lr.Intn(2) == 0 {
							set = append(set, d)
						}
					}
					if set == nil {
						set = []string{}
					}
					if !resolved("bk.verif.invalid", set) {
						return
					}
					time.Sleep(time.Duration(200+lr.Intn(800)) * time.Microsecond)
				}
			}()
			go func() { // the solo group: present / empty / present ...
				defer cw.Done()
				lr := vfRand(int64(2000 + pi))
				for on := false; ; on = !on {
					select {
					case <-stopChurn:
						resolved("solo.verif.invalid", []string{dyn[0]})
						return
					default:
					}
					set := []string{}
					if on {
						set = []string{dyn[0]}
					}
					if !resolved("solo.verif.invalid", set) {
						return
					}
					time.Sleep(time.Duration(500+lr.Intn(3000)) * time.Microsecond)
				}
			}()
		}
		for li, l := range ls {
			for k := 0; k < 2; k++ {
				wg.Add(2)
				go s.udpClient(&wg, fmt.Sprintf("p%d-l%d-u%d", pi, li, k), l.udp, per, "", &sent)
				go s.tcpClient(&wg, fmt.Sprintf("p%d-l%d-t%d", pi, li, k), l.tcp, per, &sent)
			}
			// requests that leave by Route: to an address, to a host-table name's sibling, and to a name only /etc/hosts knows
			wg.Add(1)
			route := fmt.Sprintf("<sip:localhost:%d;lr>", lhPort)
			_ = rnd
			go s.udpClient(&wg, fmt.Sprintf("p%d-l%d-r", pi, li), l.udp, per/2, route, &sentRoute)
		}
		wg.Wait()
		close(stopChurn)
		cw.Wait()
		time.Sleep(100 * time.Millisecond)
		runtime.GOMAXPROCS(old)
		// progress: a sentinel through every listener
		alive := true
		for li, l := range ls {
			var sw sync.WaitGroup
			var ss vfCounter
			sw.Add(1)
			name := fmt.Sprintf("p%d-l%d-sentinel", pi, li)
			go s.udpClient(&sw, name, l.udp, 1, "", &ss)
			sw.Wait()
			if s.resp.snapshot()[name+"-0"] != 1 {
				alive = false
			}
		}
		if mode != "probe" {
			continue
		}
		got, resp, routed := s.got.snapshot(), s.resp.snapshot(), s.routed.snapshot()
		missing, dup, noresp := 0, 0, 0
		for id := range sent.snapshot() {
			switch n := got[id]; {
			case n == 0:
				missing++
			case n > 1:
				dup++
			}
			if resp[id] != 1 {
				noresp++
			}
		}
		rmiss := 0
		for id := range sentRoute.snapshot() {
			if routed[id] != 1 {
				rmiss++
			}
		}
		nsent := len(sent.snapshot()) + len(sentRoute.snapshot())
		received := int(atomic.LoadInt64(&s.udpRecv)-r0) + int(atomic.LoadInt64(&s.tcpMsg)-m0)
		tr.Emit(vfM{"ev": "phase", "case": fmt.Sprintf("%s-listeners%d", ph.name, nl), "cls": ph.name, "churn": ph.churn, "sent": nsent, "received": received,
			"missing": missing, "dup": dup, "noresp": noresp, "route_missing": rmiss, "alive": alive, "churn_stuck": atomic.LoadInt32(&churnStuck) != 0, "overlap": int(atomic.LoadInt64(&s.overlap))})
	}
	close(s.stop)
	fmt.Printf("VF cases=%d events=%d\n", len(phases), len(phases))
}
