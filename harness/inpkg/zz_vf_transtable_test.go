//go:build verif

package main

// Driver for the TransTable family (model conformance of the client-transport
// table; attached to C12): histories of table operations sampled by TLC from
// MC_TransTableSim are made to happen from outside - connections dialled to the
// real TCP listener (the loop's ConnectionAccepted branch), requests written on
// them (handleRawMessage registers the connection), responses injected from the
// backend's side (sendMessage looks the transaction up, a final one deletes it),
// time moved by shifting the table's clocks - and after every operation the
// real table is read in-package behind the loop barrier and logged as the
// projection TransTableOps!Proj defines.  Trace_TransTable replays the same
// operations on the model and compares.

import (
	"encoding/json"
	"fmt"
	"net"
	"sort"
	"strings"
	"syscall"
	"testing"
	"time"
)

type vfTTOp struct {
	Op    string `json:"op"`
	C     string `json:"c"`
	Proto string `json:"proto"`
	D     string `json:"d"`
	T     string `json:"t"`
	Final bool   `json:"final"`
	N     int    `json:"n"`
}

type vfTTConn struct {
	fd        int
	ip        string
	port      int
	connected bool
}

type vfTT struct {
	t     *testing.T
	tr    *vfTrace
	g     *vfGamma
	b     *vfBench
	id    string
	lport int
	conns map[string]*vfTTConn
	dests map[string]string // symbol -> ip:port
}

func (x *vfTT) open(id string) {
	x.id = id
	for _, c := range x.conns {
		syscall.Close(c.fd)
	}
	cfg := vfBenchCfg{Names: "svc.example.com", Hosts: x.g.hosts(),
		Proxies: []vfPCfg{{Addr: x.g.ip("10.0.0.1"), Trans: []vfTCfg{{"UDP", 5060, false}, {"TCP", 0, true}}, Recv: true,
			Backends: []string{x.g.ip("10.0.4.1") + ":5060"}}}}
	x.b = vfGetBench(x.t, cfg)
	x.lport = x.b.trans[0][1].(*TCPServerTransport).port
	// a table of its own for every case (the loop is idle: nothing is in flight)
	m := x.b.proxies[0].clientTransMgr
	m.Lock()
	m.transports = make(map[string]*FailOverClientTransport)
	m.lastCleanTime = time.Now().Unix()
	m.Unlock()
	// the two client connections get their local address now (bound, not yet connected): the model's a1 / a2
	cip := x.g.ip("10.0.5.5")
	x.conns = map[string]*vfTTConn{}
	x.dests = map[string]string{"h1": fmt.Sprintf("%s:5062", cip)}
	for i, n := range []string{"c1", "c2"} {
		fd, err := syscall.Socket(syscall.AF_INET, syscall.SOCK_STREAM|syscall.SOCK_CLOEXEC, 0)
		if err != nil {
			x.t.Fatalf("VF-INFRA socket: %v", err)
		}
		if err := syscall.Bind(fd, vfSockaddr(cip, 0)); err != nil {
			x.t.Fatalf("VF-INFRA bind: %v", err)
		}
		sa, _ := syscall.Getsockname(fd)
		ip, port := vfSaStr(sa)
		x.conns[n] = &vfTTConn{fd: fd, ip: ip, port: port}
		x.dests[fmt.Sprintf("a%d", i+1)] = fmt.Sprintf("%s:%d", ip, port)
	}
	x.tr.Emit(vfM{"ev": "reset", "case": id})
}

func (x *vfTT) branch(t string) string { return fmt.Sprintf("z9hG4bK-%s-%s", x.id, t) }

// hopOf: the response hop of the requests of a connection (MC_TransTable!MCHopOf): c1 announces its true address,
// c2 the address h1; with received-support on and no rport the hop is <true ip>:<announced port>
func (x *vfTT) hopOf(c string) string {
	if c == "c1" {
		return x.dests["a1"]
	}
	return x.dests["h1"]
}

func (x *vfTT) viaFor(d, t string) string {
	v := "SIP/2.0/TCP " + x.dests[d]
	if t != "" {
		v += ";branch=" + x.branch(t)
	}
	return v
}

func (x *vfTT) do(op vfTTOp) {
	pm, stuck := "", false
	switch op.Op {
	case "acc":
		c := x.conns[op.C]
		if err := syscall.Connect(c.fd, vfSockaddr(x.g.ip("10.0.0.1"), x.lport)); err != nil {
			x.t.Fatalf("VF-INFRA connect: %v", err)
		}
		c.connected = true
		stuck = !x.b.wait("loop.conn")
	case "req":
		c := x.conns[op.C]
		hop := x.hopOf(op.C)
		hs := []vfHdr{{"Via", fmt.Sprintf("SIP/2.0/TCP %s;branch=%s", hop, x.branch(op.T))}, {"Max-Forwards", "70"},
			{"From", "<sip:a@a.example>;tag=f" + op.T}, {"To", "<sip:service@svc.example.com>"}, {"Call-ID", x.id + "-" + op.T}, {"CSeq", "1 INVITE"}, {"Content-Length", "0"}}
		raw := vfRender("INVITE sip:service@svc.example.com SIP/2.0", hs, nil)
		pm = vfCatch(func() {
			for len(raw) > 0 {
				n, err := syscall.Write(c.fd, raw)
				if err != nil {
					x.t.Fatalf("VF-INFRA write: %v", err)
				}
				raw = raw[n:]
			}
			stuck = !x.b.wait("loop.msg")
		})
	case "send":
		status := 180
		if op.Final {
			status = 200
		}
		via2 := x.viaFor(op.D, op.T)
		if op.Proto == "udp" {
			via2 = "SIP/2.0/UDP " + x.dests[op.D] + ";branch=" + x.branch("u")
		}
		hs := []vfHdr{{"Via", fmt.Sprintf("SIP/2.0/UDP %s:5060;branch=z9hG4bKown", x.g.ip("10.0.0.1"))}, {"Via", via2},
			{"From", "<sip:a@a.example>;tag=f"}, {"To", "<sip:service@svc.example.com>;tag=b"}, {"Call-ID", x.id + "-s"}, {"CSeq", "1 INVITE"}, {"Content-Length", "0"}}
		raw := vfRender(fmt.Sprintf("SIP/2.0 %d X", status), hs, nil)
		var res vfStepRes
		pm = vfCatch(func() { res = x.b.inject(0, 0, x.g.ip("10.0.4.1"), 5060, raw, nil) })
		stuck = res.Stuck
	case "tick":
		// time passes: every clock of the table moves back by n seconds (the loop is idle behind the barrier)
		m := x.b.proxies[0].clientTransMgr
		m.Lock()
		m.lastCleanTime -= int64(op.N)
		seen := map[*TCPClientTransport]bool{}
		for _, e := range m.transports {
			for _, ct := range []ClientTransport{e.primary, e.secondary} {
				if tc, ok := ct.(*TCPClientTransport); ok && tc != nil && tc.expire > 0 && !seen[tc] {
					seen[tc] = true
					tc.expire -= int64(op.N)
				}
			}
		}
		m.Unlock()
	}
	x.tr.Emit(vfM{"ev": "op", "case": x.id, "cls": op.Op, "op": op.Op, "c": op.C, "proto": op.Proto, "d": op.D, "t": op.T, "final": op.Final, "n": op.N,
		"hop": x.symOfHop(op), "tab": x.project(), "panic": pm, "stuck": stuck})
}

// the destination symbol the operation's key has in the model (for req: the response hop of the connection)
func (x *vfTT) symOfHop(op vfTTOp) string {
	if op.Op == "req" {
		for s, a := range x.dests {
			if a == x.hopOf(op.C) {
				return s
			}
		}
	}
	return op.D
}

// project reads the real table as TransTableOps!Proj does the model's
func (x *vfTT) project() []vfM {
	m := x.b.proxies[0].clientTransMgr
	m.Lock()
	defer m.Unlock()
	sym := map[string]string{}
	for s, a := range x.dests {
		sym[a] = s
	}
	out := []vfM{}
	for key, e := range m.transports {
		// key = proto://ip:port[-METHOD-branch]
		i := strings.Index(key, "://")
		proto, rest := key[:i], key[i+3:]
		addr, tid := rest, ""
		if j := strings.Index(rest, "-"); j >= 0 {
			addr, tid = rest[:j], rest[j+1:]
		}
		d, ok := sym[addr]
		if !ok {
			d = "?" + addr
		}
		t := ""
		if tid != "" {
			t = "?" + tid
			for _, k := range []string{"t1", "t2", "t3", "u"} {
				if tid == "INVITE-"+x.branch(k) {
					t = k
				}
			}
		}
		pri, c, expired := "none", "", false
		switch p := e.primary.(type) {
		case *TCPClientTransport:
			if p != nil {
				pri = "out"
				if !p.reconnectable {
					pri = "in"
					if p.conn != nil {
						_, ps, _ := net.SplitHostPort(p.conn.RemoteAddr().String())
						for n, cc := range x.conns {
							if fmt.Sprint(cc.port) == ps {
								c = n
							}
						}
					}
				}
				expired = p.IsExpired()
			}
		case *UDPClientTransport:
			if p != nil {
				pri = "udp"
			}
		}
		sec := "none"
		if e.secondary != nil {
			sec = "own"
			if pe, ok := m.transports[proto+"://"+addr]; ok && pe.secondary == e.secondary {
				sec = "peer"
			}
		}
		out = append(out, vfM{"proto": proto, "d": d, "t": t, "pri": pri, "c": c, "expired": expired, "sec": sec})
	}
	sort.Slice(out, func(i, j int) bool {
		return fmt.Sprint(out[i]["proto"], out[i]["d"], out[i]["t"]) < fmt.Sprint(out[j]["proto"], out[j]["d"], out[j]["t"])
	})
	return out
}

func TestVfTransTable(t *testing.T) {
	tr := vfOpenTrace(t, "VERIF_TRACE")
	defer tr.Close()
	x := &vfTT{t: t, tr: tr, conns: map[string]*vfTTConn{}}
	x.g = &vfGamma{base: vfIPBase(), rnd: vfRand(33)}
	vfAllSinks.get(t, x.g.ip("10.0.5.5"), 5062) // h1: accepts what the proxy dials when no inbound connection is registered
	ncase := 0
	max := vfEnvInt("VERIF_MAXBEH", 200)
	seen := map[string]bool{}
	vfReadBehaviours(t, vfEnv("VERIF_IN", ""), func(raw []byte) {
		if seen[string(raw)] || ncase >= max {
			return
		}
		seen[string(raw)] = true
		var bh struct {
			Hist []vfTTOp `json:"hist"`
		}
		if err := json.Unmarshal(raw, &bh); err != nil {
			t.Fatalf("bad behaviour: %v", err)
		}
		ncase++
		x.open(fmt.Sprintf("tlc%d", ncase))
		for _, op := range bh.Hist {
			x.do(op)
		}
	})
	for _, c := range x.conns {
		syscall.Close(c.fd)
	}
	fmt.Printf("VF cases=%d events=%d\n", ncase, tr.n)
}
