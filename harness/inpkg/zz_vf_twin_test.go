//go:build verif

package main

// Driver for C17: two identical real proxies (same configuration, same
// history) are stepped in lockstep on twins - the same message with every
// header name independently respelled (canonical, compact where one exists,
// upper, lower, random case) and every Via / Route / Record-Route list
// re-laid-out.  The trace carries both alpha(outputs); TLC evaluates the twin
// relation JudgeC17 - nothing is compared with an expected value.

import (
	"encoding/json"
	"fmt"
	"sort"
	"strings"
	"testing"
)

var vfCompactOf = map[string]string{"via": "v", "from": "f", "to": "t", "call-id": "i", "content-length": "l", "contact": "m",
	"content-type": "c", "content-encoding": "e", "supported": "k", "subject": "s", "event": "o", "refer-to": "r", "referred-by": "b",
	"allow-events": "u", "accept-contact": "a"}
var vfLongOf = map[string]string{"via": "Via", "from": "From", "to": "To", "call-id": "Call-ID", "content-length": "Content-Length",
	"contact": "Contact", "content-type": "Content-Type", "content-encoding": "Content-Encoding", "supported": "Supported", "subject": "Subject",
	"event": "Event", "refer-to": "Refer-To", "referred-by": "Referred-By", "allow-events": "Allow-Events", "accept-contact": "Accept-Contact"}

func (g *vfGamma) respell(name string) string {
	canon := vfCanonName(name)
	long, ok := vfLongOf[canon]
	if !ok {
		long = name
	}
	switch g.rnd.Intn(5) {
	case 0:
		if c, ok := vfCompactOf[canon]; ok {
			if g.rnd.Intn(2) == 0 {
				return strings.ToUpper(c)
			}
			return c
		}
		return strings.ToUpper(long)
	case 1:
		return strings.ToUpper(long)
	case 2:
		return strings.ToLower(long)
	case 3:
		b := []byte(long)
		for i := range b {
			if g.rnd.Intn(2) == 0 {
				b[i] = strings.ToUpper(string(b[i]))[0]
			} else {
				b[i] = strings.ToLower(string(b[i]))[0]
			}
		}
		return string(b)
	}
	return long
}

// twin: respell every name, re-lay-out every routing list (split lines, join adjacent lines of the same header)
func (g *vfGamma) twin(hs []vfHdr) []vfHdr {
	var out []vfHdr
	for i := 0; i < len(hs); i++ {
		h := hs[i]
		cls := vfClass(h.n)
		if cls == "via" || cls == "route" || cls == "rr" {
			// gather the run of adjacent lines of this class
			var ents []string
			j := i
			for ; j < len(hs) && vfClass(hs[j].n) == cls; j++ {
				for _, e := range vfSplitTop(hs[j].v, ',') {
					ents = append(ents, strings.TrimSpace(e))
				}
			}
			i = j - 1
			// cut the run into new lines at random
			k := 0
			for k < len(ents) {
				n := 1 + g.rnd.Intn(len(ents)-k)
				out = append(out, vfHdr{g.respell(h.n), strings.Join(ents[k:k+n], g.pick(",", ", ", " ,"))})
				k += n
			}
			continue
		}
		out = append(out, vfHdr{g.respell(h.n), h.v})
	}
	return out
}

func (pr *vfProxyRun) half(b *vfBench, pi, ti int, srcIP string, srcPort int, raw []byte) (vfM, string, bool) {
	in := vfAlpha(raw)
	if in.Kind == "garbled" {
		pr.t.Fatalf("VF-INFRA alpha cannot read a generated message:\n%q", raw)
	}
	var res vfStepRes
	pm := vfCatch(func() { res = b.inject(pi, ti, srcIP, srcPort, raw, nil) })
	if res.ParseErr != "" {
		return vfM{"inmsg": in, "outs": []vfM{}, "parse": res.ParseErr}, pm, res.Stuck
	}
	outs := []vfM{}
	for _, o := range res.Outs {
		outs = append(outs, vfM{"kind": o.Kind, "addr": o.Addr, "ip": o.IP, "port": o.Port, "proto": o.Proto, "msg": vfAlpha(o.Raw)})
	}
	return vfM{"inmsg": in, "outs": outs, "parse": ""}, pm, res.Stuck
}

func TestVfTwin(t *testing.T) {
	tr := vfOpenTrace(t, "VERIF_TRACE")
	defer tr.Close()
	pr := &vfProxyRun{t: t, tr: tr, branches: map[string]bool{}}
	pr.g = &vfGamma{base: vfIPBase(), rnd: vfRand(17), decor: 1, hard: vfEnvInt("VERIF_HARD", 0) == 1}
	pr.sinks(0)
	stride := vfEnvInt("VERIF_STRIDE", 1)
	reps := vfEnvInt("VERIF_REPS", 2)
	seen := map[string]bool{}
	var recs []string
	vfReadBehaviours(t, vfEnv("VERIF_IN", ""), func(raw []byte) {
		if !seen[string(raw)] {
			seen[string(raw)] = true
			recs = append(recs, string(raw))
		}
	})
	sort.Strings(recs)
	k := 0
	for _, raw := range recs {
		k++
		if stride > 1 && (int64(k)+vfSeed())%int64(stride) != 0 {
			continue
		}
		var rc vfRecipe
		if err := json.Unmarshal([]byte(raw), &rc); err != nil {
			t.Fatalf("bad recipe: %v", err)
		}
		for rep := 0; rep < reps; rep++ {
			id := fmt.Sprintf("t%d.%d", k, rep)
			cfgA := pr.benchCfg(&rc)
			cfgB := cfgA
			cfgB.TimeoutMs = 1200001 // a distinct cache key: the twin proxy is another object with the same behaviour
			var start string
			var hs []vfHdr
			var body []byte
			srcIP, srcPort := pr.g.ip("10.0.5.5"), 24000
			if rc.Rc.Kind == "req" {
				start, hs, body = pr.g.requestParts(&rc)
			} else {
				start, hs, body = pr.g.responseParts(&rc)
				srcIP, srcPort = pr.respSrc(k + rep)
			}
			rawA := vfRender(start, hs, body)
			rawB := vfRender(start, pr.g.twin(hs), body)
			var halves [2]vfM
			panicked, stuck := "", false
			for w, raw := range [][]byte{rawA, rawB} {
				cfg := cfgA
				if w == 1 {
					cfg = cfgB
				}
				b := vfGetBench(t, cfg)
				// the same history on both: the learning requests of the recipe
				saved := pr.tr
				pr.tr = &vfTrace{w: nil}
				pr.tr = saved
				pr.learnQuiet(b, &rc, w*(1+pr.ncase%4))
				h, pm, st := pr.half(b, 0, 0, srcIP, srcPort, raw)
				halves[w] = h
				if pm != "" {
					panicked = pm
				}
				stuck = stuck || st
			}
			cls := fmt.Sprintf("kind=%s route=%s order=%s rvia=%s", rc.Rc.Kind, strings.Join(rc.Route, "+"), rc.Rc.Order, rc.Rc.Rvia)
			tr.Emit(vfM{"ev": "twin", "case": id, "cls": cls, "a": halves[0], "b": halves[1], "panic": panicked, "stuck": stuck})
			pr.ncase++
		}
	}
	fmt.Printf("VF cases=%d events=%d\n", pr.ncase, tr.n)
}

// learnQuiet replays the learning requests of a recipe without logging them.  The history is part of the twin relation:
// twin A's learning requests list their Via entries one per line, twin B's in another layout / spelling (comma-joined,
// compact name, other headers between the Via lines, Via lines last) - what is learnt must not depend on that
func (pr *vfProxyRun) learnQuiet(b *vfBench, rc *vfRecipe, layout int) {
	g := pr.g
	mk := func(viaHosts ...string) []byte {
		var hs, vias []vfHdr
		name := "Via"
		if layout == 2 {
			name = "v"
		}
		var ents []string
		for i, h := range viaHosts {
			ents = append(ents, fmt.Sprintf("SIP/2.0/UDP %s;branch=z9hG4bKl%d", h, i))
		}
		if layout == 1 {
			vias = []vfHdr{{name, strings.Join(ents, ", ")}}
		} else {
			for _, e := range ents {
				vias = append(vias, vfHdr{name, e})
			}
		}
		rest := []vfHdr{{"Max-Forwards", "70"}, {"From", "<sip:l@l.example>;tag=l"}, {"To", "<sip:nobody@z.z>"}, {"Call-ID", "learn"}, {"CSeq", "1 OPTIONS"}, {"Content-Length", "0"}}
		switch layout {
		case 3:
			for i, v := range vias {
				hs = append(hs, v, rest[i%2])
			}
			hs = append(hs, rest[2:]...)
			if len(vias) < 2 {
				hs = append(hs, rest[1])
			}
		case 4:
			hs = append(append(hs, rest...), vias...)
		default:
			hs = append(append(hs, vias...), rest...)
		}
		return vfRender("OPTIONS sip:nobody@nowhere.example SIP/2.0", hs, nil)
	}
	switch rc.Rc.Learn {
	case "hop.p1":
		b.inject(0, 0, g.ip("10.0.1.1"), 5070, mk(g.ip("10.0.1.4"), "n1.example.com"), nil)
		b.inject(0, 1, g.ip("10.0.1.2"), 33000, mk(g.ip("10.0.1.2")), nil)
	case "hop.p1real":
		b.inject(0, 2, g.ip("10.0.1.1"), 5070, mk(g.ip("10.0.1.4"), g.ip("10.0.1.5")), nil)
		b.inject(0, 2, g.ip("10.0.1.2"), 33000, mk(g.ip("10.0.1.2")), nil)
	case "hop.bk":
		b.inject(0, 0, g.ip("10.0.4.1"), 5060, mk(g.ip("10.0.1.1"), g.ip("10.0.1.4"), "n1.example.com"), nil)
	case "ua.p1real":
		b.inject(0, 2, g.ip("10.0.2.1"), 5062, mk(g.ip("10.0.2.1")), nil)
	case "hop.p2":
		b.inject(1, 0, g.ip("10.0.1.1"), 5070, mk(g.ip("10.0.1.5")), nil)
	}
}

// TestVfUdpRepeat: C10 at the level of what is RELAYED - the very same datagram processed again (a retransmission) must be
// handled exactly as the first time: nothing the proxy did to an earlier datagram may show in how a later one is
// treated.  Datagrams whose routing lists come comma-joined on one line or one entry per line, responses and requests;
// every case uses texts (branches) no earlier case has used.  Twin relation (JudgeC17) between the first processing and
// each later one; reported for C10.
func TestVfUdpRepeat(t *testing.T) {
	tr := vfOpenTrace(t, "VERIF_TRACE")
	defer tr.Close()
	pr := &vfProxyRun{t: t, tr: tr, branches: map[string]bool{}}
	pr.g = &vfGamma{base: vfIPBase(), rnd: vfRand(27), decor: 1}
	pr.sinks(0)
	g := pr.g
	cfg := vfBenchCfg{Names: vfNamesCfg, Hosts: g.hosts(), Static: []vfRouteCfg{{"udp", "e.x", g.ip("10.0.1.4") + ":6001"}},
		Proxies: []vfPCfg{{Addr: g.ip("10.0.0.1"), Trans: []vfTCfg{{"UDP", 5060, false}, {"TCP", 5061, false}}, Recv: true,
			Backends: []string{g.ip("10.0.4.1") + ":5060"}}}} // ONE backend: which member of a rotation gets a request legitimately depends on history (C05)
	b := vfGetBench(t, cfg)
	ncase := 0
	nrep := vfEnvInt("VERIF_NREPEAT", 3)
	for round := 0; round < vfEnvInt("VERIF_NROUND", 6); round++ {
		for li, layout := range []string{"joined3", "joined2+1", "split"} {
			for ki, kind := range []string{"resp200", "resp180", "req-static", "req-backend"} {
				id := fmt.Sprintf("rep%d.%d.%d", round, li, ki)
				u := fmt.Sprintf("%d-%d-%d", round, li, ki)
				vias := []string{fmt.Sprintf("SIP/2.0/UDP %s:5060;branch=z9hG4bKown%s", g.ip("10.0.0.1"), u),
					fmt.Sprintf("SIP/2.0/UDP %s:5062;branch=z9hG4bKc%s;rport", g.ip("10.0.2.1"), u), fmt.Sprintf("SIP/2.0/UDP %s:5064;branch=z9hG4bKd%s", g.ip("10.0.2.2"), u)}
				routes := []string{fmt.Sprintf("<sip:%s:5060;lr>", g.ip("10.0.0.1")), fmt.Sprintf("<sip:%s:5070;lr>", g.ip("10.0.1.1")), fmt.Sprintf("<sip:%s:5080;lr>", g.ip("10.0.1.7"))}
				lay := func(name string, ents []string) []vfHdr {
					switch layout {
					case "joined3":
						return []vfHdr{{name, strings.Join(ents, ", ")}}
					case "joined2+1":
						if len(ents) < 3 {
							return []vfHdr{{name, strings.Join(ents, ",")}}
						}
						return []vfHdr{{name, strings.Join(ents[:2], ",")}, {name, ents[2]}}
					}
					var r []vfHdr
					for _, e := range ents {
						r = append(r, vfHdr{name, e})
					}
					return r
				}
				var raw []byte
				srcIP, srcPort := g.ip("10.0.5.5"), 24000
				rest := []vfHdr{{"From", "<sip:a@a.example>;tag=f" + u}, {"To", "<sip:b@e.x>;tag=t" + u}, {"Call-ID", "rep-" + u}}
				switch kind {
				case "resp200", "resp180":
					hs := append(lay("Via", vias), rest...)
					hs = append(hs, vfHdr{"CSeq", "1 INVITE"}, vfHdr{"Content-Length", "0"})
					raw = vfRender(map[string]string{"resp200": "SIP/2.0 200 OK", "resp180": "SIP/2.0 180 Ringing"}[kind], hs, nil)
					srcIP, srcPort = g.ip("10.0.1.1"), 5070
				case "req-static":
					hs := append(lay("Via", vias[1:]), vfHdr{"Max-Forwards", "70"})
					hs = append(hs, lay("Route", routes)...)
					hs = append(append(hs, rest...), vfHdr{"CSeq", "2 MESSAGE"}, vfHdr{"Content-Length", "0"})
					raw = vfRender("MESSAGE sip:b@e.x SIP/2.0", hs, nil)
				default:
					hs := append(lay("Via", vias[1:]), vfHdr{"Max-Forwards", "70"}, vfHdr{"Record-Route", fmt.Sprintf("<sip:%s:5060;lr>, <sip:%s:5060;lr>", g.ip("10.0.3.1"), g.ip("10.0.3.2"))})
					hs = append(append(hs, rest[0], vfHdr{"To", "<sip:service@svc.example.com>"}, rest[2]), vfHdr{"CSeq", "3 OPTIONS"}, vfHdr{"Content-Length", "0"})
					raw = vfRender("OPTIONS sip:service@svc.example.com SIP/2.0", hs, nil)
				}
				b.reset(t)
				first, pm0, st0 := pr.half(b, 0, 0, srcIP, srcPort, raw)
				for k := 2; k <= nrep; k++ {
					again, pm, st := pr.half(b, 0, 0, srcIP, srcPort, raw)
					if pm0 != "" {
						pm = pm0
					}
					tr.Emit(vfM{"ev": "twin", "case": id, "cls": fmt.Sprintf("same-datagram-again kind=%s layout=%s processing=%d", kind, layout, k), "a": first, "b": again, "panic": pm, "stuck": st || st0})
				}
				ncase++
			}
		}
	}
	fmt.Printf("VF cases=%d events=%d\n", ncase, tr.n)
}
