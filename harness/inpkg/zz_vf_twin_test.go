//go:build verif

package main

// Driver for C17: two identical real proxies (same configuration, same
// history) are stepped in lockstep on twins - the same message with every
// header name independently respelled (canonical, compact where one exists,
// upper, lower, random case) and every Via / Route / Record-Route list
// re-laid-out.  The trace carries both alpha(outputs); TLC evaluates the twin
// relation JudgeC17 - nothing is compared with an expected value.

import (
	"encoding/json"
	"fmt"
	"sort"
	"strings"
	"testing"
)

var vfCompactOf = map[string]string{"via": "v", "from": "f", "to": "t", "call-id": "i", "content-length": "l", "contact": "m",
	"content-type": "c", "content-encoding": "e", "supported": "k", "subject": "s", "event": "o", "refer-to": "r", "referred-by": "b",
	"allow-events": "u", "accept-contact": "a"}
var vfLongOf = map[string]string{"via": "Via", "from": "From", "to": "To", "call-id": "Call-ID", "content-length": "Content-Length",
	"contact": "Contact", "content-type": "Content-Type", "content-encoding": "Content-Encoding", "supported": "Supported", "subject": "Subject",
	"event": "Event", "refer-to": "Refer-To", "referred-by": "Referred-By", "allow-events": "Allow-Events", "accept-contact": "Accept-Contact"}

func (g *vfGamma) respell(name string) string {
	canon := vfCanonName(name)
	long, ok := vfLongOf[canon]
	if !ok {
		long = name
	}
	switch g.rnd.Intn(5) {
	case 0:
		if c, ok := vfCompactOf[canon]; ok {
			if g.rnd.Intn(2) == 0 {
				return strings.ToUpper(c)
			}
			return c
		}
		return strings.ToUpper(long)
	case 1:
		return strings.ToUpper(long)
	case 2:
		return strings.ToLower(long)
	case 3:
		b := []byte(long)
		for i := range b {
			if g.rnd.Intn(2) == 0 {
				b[i] = strings.ToUpper(string(b[i]))[0]
			} else {
				b[i] = strings.ToLower(string(b[i]))[0]
			}
		}
		return string(b)
	}
	return long
}

// twin: respell every name, re-lay-out every routing list (split lines, join adjacent lines of the same header)
func (g *vfGamma) twin(hs []vfHdr) []vfHdr {
	var out []vfHdr
	for i := 0; i < len(hs); i++ {
		h := hs[i]
		cls := vfClass(h.n)
		if cls == "via" || cls == "route" || cls == "rr" {
			// gather the run of adjacent lines of this class
			var ents []string
			j := i
			for ; j < len(hs) && vfClass(hs[j].n) == cls; j++ {
				for _, e := range vfSplitTop(hs[j].v, ',') {
					ents = append(ents, strings.TrimSpace(e))
				}
			}
			i = j - 1
			// cut the run into new lines at random
			k := 0
			for k < len(ents) {
				n := 1 + g.rnd.Intn(len(ents)-k)
				out = append(out, vfHdr{g.respell(h.n), strings.Join(ents[k:k+n], g.pick(",", ", ", " ,"))})
				k += n
			}
			continue
		}
		out = append(out, vfHdr{g.respell(h.n), h.v})
	}
	return out
}

func (pr *vfProxyRun) half(b *vfBench, pi, ti int, srcIP string, srcPort int, raw []byte) (vfM, string, bool) {
	in := vfAlpha(raw)
	if in.Kind == "garbled" {
		pr.t.Fatalf("VF-INFRA alpha cannot read a generated message:\n%q", raw)
	}
	var res vfStepRes
	pm := vfCatch(func() { res = b.inject(pi, ti, srcIP, srcPort, raw, nil) })
	if res.ParseErr != "" {
		return vfM{"inmsg": in, "outs": []vfM{}, "parse": res.ParseErr}, pm, res.Stuck
	}
	outs := []vfM{}
	for _, o := range res.Outs {
		outs = append(outs, vfM{"kind": o.Kind, "addr": o.Addr, "ip": o.IP, "port": o.Port, "proto": o.Proto, "msg": vfAlpha(o.Raw)})
	}
	return vfM{"inmsg": in, "outs": outs, "parse": ""}, pm, res.Stuck
}

func TestVfTwin(t *testing.T) {
	tr := vfOpenTrace(t, "VERIF_TRACE")
	defer tr.Close()
	pr := &vfProxyRun{t: t, tr: tr, branches: map[string]bool{}}
	pr.g = &vfGamma{base: vfIPBase(), rnd: vfRand(17), decor: 1, hard: vfEnvInt("VERIF_HARD", 0) == 1}
	pr.sinks(0)
	stride := vfEnvInt("VERIF_STRIDE", 1)
	reps := vfEnvInt("VERIF_REPS", 2)
	seen := map[string]bool{}
	var recs []string
	vfReadBehaviours(t, vfEnv("VERIF_IN", ""), func(raw []byte) {
		if !seen[string(raw)] {
			seen[string(raw)] = true
			recs = append(recs, string(raw))
		}
	})
	sort.Strings(recs)
	k := 0
	for _, raw := range recs {
		k++
		if stride > 1 && (int64(k)+vfSeed())%int64(stride) != 0 {
			continue
		}
		var rc vfRecipe
		if err := json.Unmarshal([]byte(raw), &rc); err != nil {
			t.Fatalf("bad recipe: %v", err)
		}
		for rep := 0; rep < reps; rep++ {
			id := fmt.Sprintf("t%d.%d", k, rep)
			cfgA := pr.benchCfg(&rc)
			cfgB := cfgA
			cfgB.TimeoutMs = 1200001 // a distinct cache key: the twin proxy is another object with the same behaviour
			var start string
			var hs []vfHdr
			var body []byte
			srcIP, srcPort := pr.g.ip("10.0.5.5"), 24000
			if rc.Rc.Kind == "req" {
				start, hs, body = pr.g.requestParts(&rc)
			} else {
				start, hs, body = pr.g.responseParts(&rc)
				srcIP, srcPort = pr.respSrc(k + rep)
			}
			rawA := vfRender(start, hs, body)
			rawB := vfRender(start, pr.g.twin(hs), body)
			var halves [2]vfM
			panicked, stuck := "", false
			for w, raw := range [][]byte{rawA, rawB} {
				cfg := cfgA
				if w == 1 {
					cfg = cfgB
				}
				b := vfGetBench(t, cfg)
				// the same history on both: the learning requests of the recipe
				saved := pr.tr
				pr.tr = &vfTrace{w: nil}
				pr.tr = saved
				pr.learnQuiet(b, &rc, w*(1+pr.ncase%4))
				h, pm, st := pr.half(b, 0, 0, srcIP, srcPort, raw)
				halves[w] = h
				if pm != "" {
					panicked = pm
				}
				stuck = stuck || st
			}
			cls := fmt.Sprintf("kind=%s route=%s order=%s rvia=%s", rc.Rc.Kind, strings.Join(rc.Route, "+"), rc.Rc.Order, rc.Rc.Rvia)
			tr.Emit(vfM{"ev": "twin", "case": id, "cls": cls, "a": halves[0], "b": halves[1], "panic": panicked, "stuck": stuck})
			pr.ncase++
		}
	}
	fmt.Printf("VF cases=%d events=%d\n", pr.ncase, tr.n)
}

// learnQuiet replays the learning requests of a recipe without logging them.  The history is part of the twin relation:
// twin A's learning requests list their Via entries one per line, twin B's in another layout / spelling (comma-joined,
// compact name, other headers between the Via lines, Via lines last) - what is learnt must not depend on that
func (pr *vfProxyRun) learnQuiet(b *vfBench, rc *vfRecipe, layout int) {
	g := pr.g
	mk := func(viaHosts ...string) []byte {
		var hs, vias []vfHdr
		name := "Via"
		if layout == 2 {
			name = "v"
		}
		var ents []string
		for i, h := range viaHosts {
			ents = append(ents, fmt.Sprintf("SIP/2.0/UDP %s;branch=z9hG4bKl%d", h, i))
		}
		if layout == 1 {
			vias = []vfHdr{{name, strings.Join(ents, ", ")}}
		} else {
			for _, e := range ents {
				vias = append(vias, vfHdr{name, e})
			}
		}
		rest := []vfHdr{{"Max-Forwards", "70"}, {"From", "<sip:l@l.example>;tag=l"}, {"To", "<sip:nobody@z.z>"}, {"Call-ID", "learn"}, {"CSeq", "1 OPTIONS"}, {"Content-Length", "0"}}
		switch layout {
		case 3:
			for i, v := range vias {
				hs = append(hs, v, rest[i%2])
			}
			hs = append(hs, rest[2:]...)
			if len(vias) < 2 {
				hs = append(hs, rest[1])
			}
		case 4:
			hs = append(append(hs, rest...), vias...)
		default:
			hs = append(append(hs, vias...), rest...)
		}
		return vfRender("OPTIONS sip:nobody@nowhere.example SIP/2.0", hs, nil)
	}
	switch rc.Rc.Learn {
	case "hop.p1":
		b.inject(0, 0, g.ip("10.0.1.1"), 5070, mk(g.ip("10.0.1.4"), "n1.example.com"), nil)
		b.inject(0, 1, g.ip("10.0.1.2"), 33000, mk(g.ip("10.0.1.2")), nil)
	case "hop.p1real":
		b.inject(0, 2, g.ip("10.0.1.1"), 5070, mk(g.ip("10.0.1.4"), g.ip("10.0.1.5")), nil)
		b.inject(0, 2, g.ip("10.0.1.2"), 33000, mk(g.ip("10.0.1.2")), nil)
	case "hop.bk":
		b.inject(0, 0, g.ip("10.0.4.1"), 5060, mk(g.ip("10.0.1.1"), g.ip("10.0.1.4"), "n1.example.com"), nil)
	case "ua.p1real":
		b.inject(0, 2, g.ip("10.0.2.1"), 5062, mk(g.ip("10.0.2.1")), nil)
	case "hop.p2":
		b.inject(1, 0, g.ip("10.0.1.1"), 5070, mk(g.ip("10.0.1.5")), nil)
	}
}
