//go:build verif

package main

// Driver for the closed loop of C02 / C07 (ReturnPath.tla): transactions of user agents at distinct true source
// addresses, announcing sent-by values that differ from them (address or host-table name, with / without port),
// asking for rport or not, with or without a spoofed received, with or without a deeper Via entry, through a real
// Proxy to Backend doubles; the backend's provisional and final responses - echoing the Via stack the double
// received - are injected from the backend's address in the interleaving TLC generated.

import (
	"encoding/json"
	"fmt"
	"strings"
	"testing"
)

type vfLoopShape struct {
	Src       struct{ Ip string; Port int } `json:"src"`
	SentBy    struct{ Host string; Port int } `json:"sentby"`
	Rport     string `json:"rport"`
	SpoofRecv bool   `json:"spoofrecv"`
	Deep      bool   `json:"deep"`
}

type vfLoopBeh struct {
	Hist []struct {
		Op string `json:"op"`
		T  string `json:"t"`
	} `json:"hist"`
	Shape map[string]vfLoopShape `json:"shape"`
}

func TestVfLoop(t *testing.T) {
	tr := vfOpenTrace(t, "VERIF_TRACE")
	defer tr.Close()
	g := &vfGamma{base: vfIPBase(), rnd: vfRand(22), decor: 1}
	uaIP := map[string]string{"ua1": g.ip("10.0.5.5"), "ua2": g.ip("10.0.5.6")}
	uaPort := map[string]int{"ua1": 24001, "ua2": 24002}
	// the announced sent-by: the model's "ua1" is an address other than any true source; "name.example" a host-table name
	sentHost := map[string]string{"ua1": g.ip("10.0.2.1"), "name.example": "client.example.com"}
	for _, sp := range [][2]interface{}{{"10.0.5.5", 24001}, {"10.0.5.6", 24002}, {"10.0.5.5", 5062}, {"10.0.5.6", 5062}, {"10.0.5.5", 5060}, {"10.0.5.6", 5060},
		{"10.0.2.1", 5062}, {"10.0.2.1", 5060}, {"10.0.2.9", 5060}, {"10.0.2.9", 5062}, {"10.0.2.2", 5064},
		{"10.0.2.3", 5060}, {"10.0.2.3", 5062}, {"10.0.2.3", 7777}, {"10.0.5.5", 7777}, {"10.0.5.6", 7777}} {
		vfAllSinks.get(t, g.ip(sp[0].(string)), sp[1].(int))
	}
	ncase := 0
	max := vfEnvInt("VERIF_MAXBEH", 300)
	k := 0
	vfReadBehaviours(t, vfEnv("VERIF_IN", ""), func(raw []byte) {
		k++
		if k > max {
			return
		}
		var bh vfLoopBeh
		if err := json.Unmarshal(raw, &bh); err != nil {
			t.Fatalf("bad behaviour: %v", err)
		}
		recv := (k+int(vfSeed()))%2 == 0
		id := fmt.Sprintf("tlc%d-recv%v", k, recv)
		cfg := vfBenchCfg{Names: "svc.example.com", Hosts: g.hosts(),
			Proxies: []vfPCfg{{Addr: g.ip("10.0.0.1"), Trans: []vfTCfg{{"UDP", 5060, false}}, Recv: recv, Backends: []string{g.ip("10.0.4.1") + ":5060", g.ip("10.0.4.2") + ":5060"}}}}
		b := vfGetBench(t, cfg)
		resolv := map[string]string{"client.example.com": g.ip("10.0.2.9"), "6.6.6.6": "6.6.6.6"}
		for _, ip := range []string{g.ip("10.0.2.1"), g.ip("10.0.5.5"), g.ip("10.0.5.6"), g.ip("10.0.2.2"), g.ip("10.0.2.3")} {
			resolv[ip] = ip
		}
		tr.Emit(vfM{"ev": "reset", "case": id, "cfg": vfM{"recv": recv, "resolv": resolv}})
		type tx struct {
			holder string
			vias   []string
		}
		txs := map[string]*tx{}
		for _, h := range bh.Hist {
			sh := bh.Shape[h.T]
			switch h.Op {
			case "req":
				sby := sentHost[sh.SentBy.Host]
				if sh.SentBy.Host == "self" { // the UA's true address as a literal; the announced port still differs from the source port
					sby = uaIP[sh.Src.Ip]
				}
				top := fmt.Sprintf("SIP/2.0/UDP %s", sby)
				if sh.SentBy.Port != 0 {
					top += fmt.Sprintf(":%d", sh.SentBy.Port)
				}
				top += fmt.Sprintf(";branch=z9hG4bK-%s-%s", id, h.T)
				switch sh.Rport {
				case "empty":
					top += ";rport"
				case "spoofed":
					top += ";rport=7777"
				}
				if sh.SpoofRecv {
					top += ";received=" + g.ip("10.0.2.3") // observable: a loopback address nobody is the true source of
				}
				hs := []vfHdr{{g.name("Via"), top}}
				if sh.Deep {
					hs = append(hs, vfHdr{g.name("Via"), fmt.Sprintf("SIP/2.0/UDP %s:5064;branch=z9hG4bKdeep", g.ip("10.0.2.2"))})
				}
				hs = append(hs, vfHdr{"Max-Forwards", "70"}, vfHdr{"From", "<sip:a@a.example>;tag=f" + h.T}, vfHdr{"To", "<sip:service@svc.example.com>"},
					vfHdr{"Call-ID", id + "-" + h.T}, vfHdr{"CSeq", "1 INVITE"}, vfHdr{"Content-Length", "0"})
				raw := vfRender("INVITE sip:service@svc.example.com SIP/2.0", hs, nil)
				var res vfStepRes
				pm := vfCatch(func() { res = b.inject(0, 0, uaIP[sh.Src.Ip], uaPort[sh.Src.Ip], raw, nil) })
				x := &tx{}
				txs[h.T] = x
				for _, o := range res.Outs {
					if o.Kind == "backend" {
						x.holder, x.vias = o.Addr, vfViaLines(o.Raw)
					}
				}
				var sent []vfAEnt
				for _, hd := range vfAlpha(raw).Hdrs {
					if hd.Cls == "via" {
						sent = append(sent, hd.Ents...)
					}
				}
				tr.Emit(vfM{"ev": "req", "case": id, "cls": fmt.Sprintf("sentby=%s:%d rport=%s spoofrecv=%v deep=%v", sh.SentBy.Host, sh.SentBy.Port, sh.Rport, sh.SpoofRecv, sh.Deep), "t": h.T,
					"src": vfM{"ip": uaIP[sh.Src.Ip], "port": uaPort[sh.Src.Ip]}, "sent": sent, "dispatched": x.holder != "", "panic": pm})
			default:
				x := txs[h.T]
				if x == nil || x.holder == "" {
					return
				}
				var hs []vfHdr
				for _, v := range x.vias {
					hs = append(hs, vfHdr{"Via", v})
				}
				hs = append(hs, vfHdr{"From", "<sip:a@a.example>;tag=f" + h.T}, vfHdr{"To", "<sip:service@svc.example.com>;tag=b"}, vfHdr{"Call-ID", id + "-" + h.T},
					vfHdr{"CSeq", "1 INVITE"}, vfHdr{"Content-Length", "0"})
				status := 180
				if h.Op == "final" {
					status = 200
				}
				i := strings.LastIndexByte(x.holder, ':')
				var port int
				fmt.Sscanf(x.holder[i+1:], "%d", &port)
				var res vfStepRes
				pm := vfCatch(func() { res = b.inject(0, 0, x.holder[:i], port, vfRender(fmt.Sprintf("SIP/2.0 %d X", status), hs, nil), nil) })
				outs := []vfM{}
				for _, o := range res.Outs {
					var stack []vfAEnt
					for _, hd := range vfAlpha(o.Raw).Hdrs {
						if hd.Cls == "via" {
							stack = append(stack, hd.Ents...)
						}
					}
					if stack == nil {
						stack = []vfAEnt{}
					}
					outs = append(outs, vfM{"ip": o.IP, "port": o.Port, "proto": o.Proto, "stack": stack})
				}
				tr.Emit(vfM{"ev": "resp", "case": id, "cls": fmt.Sprintf("status=%d", status), "t": h.T, "final": h.Op == "final", "outs": outs, "panic": pm})
			}
		}
		ncase++
	})
	fmt.Printf("VF cases=%d events=%d\n", ncase, tr.n)
}
