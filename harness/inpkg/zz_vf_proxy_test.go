//go:build verif

package main

// Driver for the single-iteration properties of the proxy pipeline
// (C01, C02, C03, C06, C07, C13): every recipe emitted by TLC from MC_Proxy is
// concretised (gamma) with seeded spellings / decorations, run through a real
// Proxy on the bench, and what went in and what came out is abstracted (alpha)
// into the trace that Trace_Proxy.tla judges.

import (
	"bufio"
	"bytes"
	"encoding/json"
	"fmt"
	"math/rand"
	"net"
	"regexp"
	"sort"
	"strings"
	"sync"
	"testing"
)

type vfRecipe struct {
	Rc struct {
		Kind   string `json:"kind"`
		Lport  int    `json:"lport"`
		Keep   bool   `json:"keep"`
		Mustrr bool   `json:"mustrr"`
		Recv   bool   `json:"recv"`
		Pool   string `json:"pool"`
		Learn  string `json:"learn"`
		To     string `json:"to"`
		Ruri   string `json:"ruri"`
		Nvia   int    `json:"nvia"`
		Nrr    int    `json:"nrr"`
		Order  string `json:"order"`
		Rport  string `json:"rport"`
		Rvia   string `json:"rvia"`
		Status int    `json:"status"`
	} `json:"rc"`
	Route []string `json:"route"`
	Rlay  []int    `json:"rlay"`
	Vlay  []int    `json:"vlay"`
	Rrlay []int    `json:"rrlay"`
}

// ------------------------------------------------------------ concretisation

type vfGamma struct {
	base   string // "127.a.b."
	rnd    *rand.Rand
	decor  int // 0: canonical spelling, no decorations; 1: seeded spellings and decorations
	hard   bool
	budget int // bytes left for opaque values and body of the message being built (a relayed message must fit a UDP datagram)
}

// abstract 10.0.x.y -> 127.a.b.(x*10+y); names are kept and resolved by the hosts table
func (g *vfGamma) ip(abs string) string {
	var a, b, c, d int
	if n, _ := fmt.Sscanf(abs, "%d.%d.%d.%d", &a, &b, &c, &d); n == 4 && a == 10 && b == 0 {
		return fmt.Sprintf("%s%d", g.base, c*10+d)
	}
	return abs
}

func (g *vfGamma) hosts() map[string]string {
	return map[string]string{"proxy.example.com": g.ip("10.0.0.1"), "n1.example.com": g.ip("10.0.1.7"), "client.example.com": g.ip("10.0.2.9")}
}

func (g *vfGamma) pick(xs ...string) string {
	if g.decor == 0 {
		return xs[0]
	}
	return xs[g.rnd.Intn(len(xs))]
}

func (g *vfGamma) name(canon string) string {
	if g.decor == 0 {
		return canon
	}
	compact := map[string]string{"Via": "v", "From": "f", "To": "t", "Call-ID": "i", "Content-Length": "l"}
	switch g.rnd.Intn(6) {
	case 0:
		if c, ok := compact[canon]; ok {
			if g.rnd.Intn(3) == 0 {
				return strings.ToUpper(c) // "V:", "F:" ... the compact forms are case-insensitive too
			}
			return c
		}
	case 1:
		return strings.ToUpper(canon)
	case 2:
		return strings.ToLower(canon)
	case 3:
		b := []byte(canon)
		for i := range b {
			if g.rnd.Intn(2) == 0 {
				b[i] = strings.ToUpper(string(b[i]))[0]
			} else {
				b[i] = strings.ToLower(string(b[i]))[0]
			}
		}
		return string(b)
	}
	return canon
}

func (g *vfGamma) routeURI(sym string, lport int) string {
	la := g.ip("10.0.0.1")
	switch sym {
	case "own.addr":
		return fmt.Sprintf("sip:%s:%d;lr", la, lport)
	case "own.alias":
		return fmt.Sprintf("sip:proxy.example.com:%d;lr", lport)
	case "own.noport":
		return "sip:proxy.example.com;lr"
	case "miss.port":
		return fmt.Sprintf("sip:%s:%d;lr", la, lport+1)
	case "miss.host":
		return fmt.Sprintf("sip:%s:%d;lr", g.ip("10.0.9.9"), lport)
	case "other.listener":
		return fmt.Sprintf("sip:%s:%d;lr", g.ip("10.0.0.2"), lport)
	case "hop1":
		return fmt.Sprintf("sip:%s:5070;lr", g.ip("10.0.1.1"))
	case "hop2.tcp":
		return fmt.Sprintf("sip:%s;transport=tcp;lr", g.ip("10.0.1.2"))
	case "hop3.tls":
		return fmt.Sprintf("sip:%s;transport=tls", g.ip("10.0.1.3"))
	case "hop4.name":
		return "sip:u@n1.example.com:5080;lr"
	}
	panic("unknown route symbol " + sym)
}

// decorations of a Route / Record-Route entry: display name, extra URI parameters, header parameters
func (g *vfGamma) rtEntry(uri string) string {
	if g.decor == 0 {
		return "<" + uri + ">"
	}
	disp := g.pick("", "", "Proxy ", "\"P One\" ", "\"a b c\" ")
	if g.hard {
		disp = g.pick(disp, "\"100% sure\" ", "\"%s %d\" ")
	}
	up := g.pick("", "", ";x=1", ";maddr=10.1.1.1;ttl=3")
	if g.hard {
		up = g.pick(up, ";flag", ";a;b=2", ";x=%41")
	}
	// extra URI parameters go before a trailing ;lr half of the time
	if strings.HasSuffix(uri, ";lr") && g.rnd.Intn(2) == 0 {
		uri = strings.TrimSuffix(uri, ";lr") + up + ";lr"
	} else {
		uri += up
	}
	hp := g.pick("", "", "")
	if g.hard {
		hp = g.pick("", ";rp=1", ";rp=1;flag", ";flag")
	}
	return disp + "<" + uri + ">" + hp
}

func (g *vfGamma) join(ents []string, sizes []int) []string {
	var lines []string
	i := 0
	for _, n := range sizes {
		sep := g.pick(",", ", ", ",")
		lines = append(lines, strings.Join(ents[i:i+n], sep))
		i += n
	}
	return lines
}

func (g *vfGamma) viaEntry(i int, form string) string {
	extra := g.pick("", "", ";ttl=1", ";x-y=z", ";maddr=10.2.2.2")
	if i == 1 {
		switch form {
		case "none":
			return fmt.Sprintf("SIP/2.0/UDP %s:5062;branch=z9hG4bKin1%s", g.ip("10.0.2.1"), extra)
		case "empty":
			return fmt.Sprintf("SIP/2.0/UDP %s:5062;branch=z9hG4bKin1;rport%s", g.ip("10.0.2.1"), extra)
		case "spoof":
			return fmt.Sprintf("SIP/2.0/UDP %s:5062;rport=9;branch=z9hG4bKin1;received=1.2.3.4%s", g.ip("10.0.2.1"), extra)
		case "spoof2":
			return fmt.Sprintf("SIP/2.0/UDP %s:5062;received=1.2.3.4;branch=z9hG4bKin1;rport=9%s", g.ip("10.0.2.1"), extra)
		case "spoof3":
			return fmt.Sprintf("SIP/2.0/UDP %s:5062;received=1.2.3.4;rport;branch=z9hG4bKin1%s", g.ip("10.0.2.1"), extra)
		case "noport":
			return fmt.Sprintf("SIP/2.0/TCP client.example.com;branch=z9hG4bKin1%s", extra)
		}
	}
	return fmt.Sprintf("SIP/2.0/UDP %s;branch=z9hG4bKin%d%s", g.ip(fmt.Sprintf("10.0.2.%d", i)), i, extra)
}

func (g *vfGamma) ruri(c string, lport int) string {
	switch c {
	case "lit":
		return "sip:alice@svc.example.com"
	case "userhost":
		return "sip:sos@emergency.example"
	case "userhost2":
		return "sip:police@emergency.example"
	case "userhost.miss":
		return "sip:fire@emergency.example"
	case "hostafter":
		return "sip:bob@dual.example"
	case "userhost.first":
		return "sip:alice@dual.example"
	case "regex":
		return "sip:x911@any.example"
	case "urn":
		return "urn:service:sos"
	case "tel":
		return "tel:+15551234"
	case "listener":
		return fmt.Sprintf("sip:%s:%d", g.ip("10.0.0.1"), lport)
	case "listener.wrongport":
		return fmt.Sprintf("sip:%s:%d", g.ip("10.0.0.1"), lport+1)
	case "foreign":
		return "sip:bob@elsewhere.example"
	}
	panic("unknown ruri class " + c)
}

const vfNamesCfg = "svc.example.com, sos@emergency.example, urn:service:sos, x9[0-9]+@any\\.example, police@emergency.example, alice@dual.example, dual.example"

type vfHdr struct{ n, v string }

func (g *vfGamma) extHeaders() []vfHdr {
	g.budget = 52000
	if g.decor == 0 {
		return []vfHdr{{"X-Ext", "v1"}}
	}
	n := g.rnd.Intn(4)
	if g.hard {
		n = g.rnd.Intn(41)
	}
	g.budget = 52000
	names := []string{"X-Ext", "Subject", "s", "Contact", "m", "User-Agent", "P-Asserted-Identity", "x-ext", "Allow", "Supported", "k", "Accept", "X-Ext", "Event", "o"}
	hs := make([]vfHdr, 0, n)
	for i := 0; i < n; i++ {
		v := g.pick("v1", "a, b;c=d", "\"q, x\" <sip:c@d>;p=1", "sip:x@y;lr", "   inner   blanks  kept", "")
		if g.hard {
			switch g.rnd.Intn(8) {
			case 0:
				v = "100%;q=%s %d %41 %"
			case 1:
				v = "caf\xc3\xa9 \xe2\x82\xac utf8"
			case 2:
				v = "bytes \xff\xfe\x80 end"
			case 3:
				sz := 1 + g.rnd.Intn(16000)
				if sz > g.budget/2 {
					sz = 1 + g.budget/4
				}
				b := make([]byte, sz)
				for j := range b {
					b[j] = byte(33 + g.rnd.Intn(94))
				}
				v = string(b)
			case 4:
				v = "edge\u3000\u00a0unicode-spaces-inside"
			case 5:
				// Unicode spaces are not SIP blanks (LWS = SP / HTAB): they belong to the value
				v = g.pick("\u00a0leading-nbsp", "trailing-ideographic-space\u3000", "\u2003both\u0085", "x\v", "y\f")
			}
		}
		g.budget -= len(v) + 24
		hs = append(hs, vfHdr{names[g.rnd.Intn(len(names))], v})
	}
	return hs
}

func (g *vfGamma) body() []byte {
	if g.decor == 0 {
		return nil
	}
	n := 0
	switch g.rnd.Intn(4) {
	case 1:
		n = 1 + g.rnd.Intn(200)
	case 2:
		if g.hard {
			n = 1 + g.rnd.Intn(60000)
			if n > g.budget-2000 {
				n = g.budget - 2000
			}
			if n < 0 {
				n = 0
			}
		} else {
			n = 1 + g.rnd.Intn(2000)
		}
	}
	b := make([]byte, n)
	for i := range b {
		b[i] = byte(g.rnd.Intn(256))
	}
	if n > 40 && g.rnd.Intn(2) == 0 {
		copy(b, []byte("INVITE sip:x SIP/2.0\r\nContent-Length: 5\r\n\r\n"))
	}
	return b
}

// request builds the concrete request of a recipe
func (g *vfGamma) request(r *vfRecipe) []byte {
	start, hs, body := g.requestParts(r)
	return vfRender(start, hs, body)
}

func (g *vfGamma) requestParts(r *vfRecipe) (string, []vfHdr, []byte) {
	rc := r.Rc
	var rts, vias, rrs []string
	for _, s := range r.Route {
		rts = append(rts, g.rtEntry(g.routeURI(s, rc.Lport)))
	}
	for i := 1; i <= rc.Nvia; i++ {
		vias = append(vias, g.viaEntry(i, rc.Rport))
	}
	for i := 1; i <= rc.Nrr; i++ {
		rrs = append(rrs, g.rtEntry(fmt.Sprintf("sip:%s:5060;lr", g.ip(fmt.Sprintf("10.0.3.%d", i)))))
	}
	tohost := map[string]string{"exact": "e.x", "wild": "w.y", "ext": "e.xyz", "pre": "pe.x"}[rc.To]
	if tohost == "" {
		tohost = "z.z"
	}
	X := g.extHeaders()
	body := g.body()
	V, RT, R := g.lines("Via", g.join(vias, r.Vlay)), g.lines("Route", g.join(rts, r.Rlay)), g.lines("Record-Route", g.join(rrs, r.Rrlay))
	F := []vfHdr{{g.name("From"), g.pick("<sip:a@a.example>;tag=ft", "\"A\" <sip:a@a.example>;tag=ft", "sip:a@a.example;tag=ft", "<sip:Alice@A.Example.COM>;tag=ft", "<sips:a@GW-1.Example.org:5071;x=Y>;tag=Ft",
		"<sip:a@a.example>; tag=ft", "<sip:a@a.example> ; tag = ft ;x= 1", "<sip:a@a.example>;note=\"a; b\";tag=ft", "\"A; B\"  <sip:a@a.example>;tag=ft;lr ; y")}}
	T := []vfHdr{{g.name("To"), g.pick("<sip:b@"+tohost+">", "B <sip:b@"+tohost+">", "sip:b@"+tohost, "<sip:b@"+tohost+">; x = 1", "<sip:b@"+tohost+"> ;y")}}
	if g.decor == 1 && g.rnd.Intn(3) == 0 {
		// an in-dialog request: both tags present (the proxy computes the dialog identity for it)
		T[0].v = "<sip:b@" + tohost + ">;tag=tT-1"
	}
	M := []vfHdr{{g.name("Max-Forwards"), "70"}}
	CL := vfHdr{g.name("Content-Length"), fmt.Sprint(len(body))}
	// CSeq = 1*DIGIT LWS Method: leading zeros and more than one blank are legal spellings of the same number
	C := []vfHdr{{g.name("Call-ID"), "cid1@" + g.base}, {g.name("CSeq"), g.pick("1 INVITE", "1 INVITE", "007 INVITE", "1   INVITE", "2147483647 INVITE", "1\tINVITE")}, CL}
	var hs []vfHdr
	cat := func(parts ...[]vfHdr) {
		for _, p := range parts {
			hs = append(hs, p...)
		}
	}
	if g.decor == 1 && g.rnd.Intn(3) == 0 {
		// beyond the orders enumerated by the model: a random interleaving
		hs = g.interleave(V, RT, R, M, F, T, C, X)
		return "INVITE " + g.ruri(rc.Ruri, rc.Lport) + " SIP/2.0", hs, body
	}
	switch rc.Order {
	case "std":
		cat(V, RT, R, M, F, T, C, X)
	case "from1st":
		cat(F, X, V, M, T, R, RT, C)
	case "mf1st":
		cat(M, T, V, F, R, X, RT, C)
	case "nofrommf":
		cat(X, V, T, RT, R, C)
	case "viaLast":
		cat(T, F, M, R, RT, C, V, X)
	case "rr1st":
		cat(R, RT, V, X, M, F, T, C)
	case "clenmid":
		cat(V, []vfHdr{CL}, RT, F, T, R, C[:2], X)
	default:
		panic("unknown order " + rc.Order)
	}
	method := "INVITE"
	return method + " " + g.ruri(rc.Ruri, rc.Lport) + " SIP/2.0", hs, body
}

func (g *vfGamma) lines(canon string, vals []string) []vfHdr {
	hs := make([]vfHdr, 0, len(vals))
	for _, v := range vals {
		hs = append(hs, vfHdr{g.name(canon), v})
	}
	return hs
}

// interleave merges the header blocks in a random order at LINE level while keeping the relative order
// of the lines of each block (the order inside a Via / Route / Record-Route stack is meaningful)
func (g *vfGamma) interleave(parts ...[]vfHdr) []vfHdr {
	var out []vfHdr
	idx := make([]int, len(parts))
	left := 0
	for _, p := range parts {
		left += len(p)
	}
	for left > 0 {
		k := g.rnd.Intn(left)
		for i, p := range parts {
			rem := len(p) - idx[i]
			if k < rem {
				out = append(out, p[idx[i]])
				idx[i]++
				break
			}
			k -= rem
		}
		left--
	}
	return out
}

func vfRender(start string, hs []vfHdr, body []byte) []byte {
	var sb strings.Builder
	sb.WriteString(start)
	sb.WriteString("\r\n")
	for _, h := range hs {
		sb.WriteString(h.n)
		sb.WriteString(": ")
		sb.WriteString(h.v)
		sb.WriteString("\r\n")
	}
	sb.WriteString("\r\n")
	return append([]byte(sb.String()), body...)
}

// response builds the concrete response of a recipe (C02 Via shapes)
func (g *vfGamma) response(r *vfRecipe) []byte {
	start, hs, body := g.responseParts(r)
	return vfRender(start, hs, body)
}

func (g *vfGamma) responseParts(r *vfRecipe) (string, []vfHdr, []byte) {
	rc := r.Rc
	la := g.ip("10.0.0.1")
	own := fmt.Sprintf("SIP/2.0/UDP %s:%d;branch=z9hG4bKown", la, rc.Lport)
	c1, c2, c3 := g.ip("10.0.2.1"), g.ip("10.0.2.2"), g.ip("10.0.2.3")
	x := g.pick("", "", ";ttl=1", ";x-y=z")
	plain := fmt.Sprintf("SIP/2.0/UDP %s:5062;branch=z9hG4bKc%s", c1, x)
	nop := fmt.Sprintf("SIP/2.0/UDP %s;branch=z9hG4bKc%s", c2, x)
	deep := fmt.Sprintf("SIP/2.0/UDP %s:5064;branch=z9hG4bKd", c2)
	var st []string
	switch rc.Rvia {
	case "own":
		st = []string{own}
	case "plain":
		st = []string{own, plain}
	case "noport":
		st = []string{own, nop, deep}
	case "received":
		st = []string{own, fmt.Sprintf("SIP/2.0/UDP client.example.com:5062;branch=z9hG4bKc;received=%s%s", c3, x)}
	case "rcv.rport":
		st = []string{own, fmt.Sprintf("SIP/2.0/UDP client.example.com:5062;received=%s;rport=7777;branch=z9hG4bKc%s", c3, x), deep}
	case "rportonly":
		st = []string{own, fmt.Sprintf("SIP/2.0/UDP %s:5062;rport=7777;branch=z9hG4bKc%s", c1, x)}
	case "rportempty":
		st = []string{own, fmt.Sprintf("SIP/2.0/UDP %s:5062;received=%s;rport;branch=z9hG4bKc%s", c1, c3, x), deep}
	case "rpempty.noport": // received + valueless rport + sent-by without a port: the default port of the transport
		st = []string{own, fmt.Sprintf("SIP/2.0/UDP client.example.com;rport;received=%s;branch=z9hG4bKc%s", c3, x), deep}
	case "tcp":
		st = []string{own, fmt.Sprintf("SIP/2.0/TCP %s:5062;branch=z9hG4bKc%s", c1, x)}
	case "tls":
		st = []string{own, fmt.Sprintf("SIP/2.0/TLS %s;branch=z9hG4bKc%s", c1, x), deep}
	case "sctp":
		st = []string{own, fmt.Sprintf("SIP/2.0/SCTP %s:5062;branch=z9hG4bKc%s", c1, x)}
	case "deep3":
		st = []string{own, plain, deep, nop}
	default:
		panic("unknown rvia " + rc.Rvia)
	}
	var rrs []string
	for i := 1; i <= rc.Nrr; i++ {
		rrs = append(rrs, g.rtEntry(fmt.Sprintf("sip:%s:5060;lr", g.ip(fmt.Sprintf("10.0.3.%d", i)))))
	}
	X := g.extHeaders()
	body := g.body()
	V, R := g.lines("Via", g.join(st, r.Vlay)), g.lines("Record-Route", g.join(rrs, r.Rrlay))
	F := []vfHdr{{g.name("From"), g.pick("<sip:a@a.example>;tag=ft", "<sip:Alice@A.Example.COM>;tag=ft", "\"A\" <sips:a@GW-1.Example.org:5071;x=Y>;tag=Ft", "<sip:a@a.example>; tag=ft", "<sip:a@a.example> ; x= 1; tag = ft")}}
	T := []vfHdr{{g.name("To"), g.pick("<sip:b@e.x>;tag=tt", "<sip:Bob@B.Example.NET>;tag=tt", "<tel:+1555;phone-context=X.Example>;tag=Tt", "<sip:b@e.x>; tag=tt", "<sip:b@e.x> ;tag = tt ; q=\"a; b\"")}}
	M := []vfHdr{{g.name("Max-Forwards"), "70"}}
	CL := vfHdr{g.name("Content-Length"), fmt.Sprint(len(body))}
	// CSeq = 1*DIGIT LWS Method: leading zeros and more than one blank are legal spellings of the same number
	C := []vfHdr{{g.name("Call-ID"), "cid1@" + g.base}, {g.name("CSeq"), g.pick("1 INVITE", "1 INVITE", "007 INVITE", "1   INVITE", "2147483647 INVITE", "1\tINVITE")}, CL}
	var hs []vfHdr
	cat := func(parts ...[]vfHdr) {
		for _, p := range parts {
			hs = append(hs, p...)
		}
	}
	reason := map[int]string{100: "Trying", 180: "Ringing", 183: "Session Progress", 200: "OK", 302: "Moved Temporarily", 404: "Not Found", 503: "Service Unavailable", 603: "Decline"}[rc.Status]
	if reason == "" {
		reason = "Whatever"
	}
	if g.decor == 1 && g.rnd.Intn(3) == 0 {
		hs = g.interleave(V, R, M, F, T, C, X)
		return fmt.Sprintf("SIP/2.0 %d %s", rc.Status, reason), hs, body
	}
	switch rc.Order {
	case "from1st":
		cat(F, X, V, M, T, R, C)
	case "mf1st":
		cat(M, T, V, F, R, X, C)
	case "viaLast":
		cat(T, F, M, R, C, V, X)
	case "rr1st":
		cat(R, V, X, M, F, T, C)
	case "clenmid":
		cat(V, []vfHdr{CL}, F, T, R, C[:2], X)
	default:
		cat(V, R, M, F, T, C, X)
	}
	return fmt.Sprintf("SIP/2.0 %d %s", rc.Status, reason), hs, body
}

// ------------------------------------------------------------ the run

type vfProxyRun struct {
	nlearn   int
	t        *testing.T
	tr       *vfTrace
	g        *vfGamma
	branches map[string]bool
	names    []*regexp.Regexp
	ncase    int
}

func (pr *vfProxyRun) sinks(lport int) {
	g := pr.g
	for _, sp := range [][2]interface{}{
		{"10.0.0.1", 5060}, {"10.0.0.1", 5061}, {"10.0.0.1", 5070}, {"10.0.0.1", 5071}, {"10.0.0.1", 5080}, {"10.0.0.1", 5081},
		{"10.0.0.2", 5060}, {"10.0.0.2", 5070}, {"10.0.9.9", 5060}, {"10.0.9.9", 5070},
		{"10.0.1.1", 5070}, {"10.0.1.1", 5060}, {"10.0.1.2", 5060}, {"10.0.1.3", 5060}, {"10.0.1.3", 5061},
		{"10.0.1.4", 6001}, {"10.0.1.5", 5060}, {"10.0.1.6", 5060}, {"10.0.1.7", 5080},
		{"10.0.2.1", 5062}, {"10.0.2.1", 5060}, {"10.0.2.1", 5061}, {"10.0.2.1", 7777}, {"10.0.2.2", 5060}, {"10.0.2.2", 5064},
		{"10.0.2.3", 5062}, {"10.0.2.3", 7777}, {"10.0.2.3", 5060}, {"10.0.2.9", 5062}, {"10.0.2.9", 5060}, {"10.0.5.5", 24000}, {"10.0.5.5", 5062},
	} {
		vfAllSinks.get(pr.t, g.ip(sp[0].(string)), sp[1].(int))
	}
}

// respSrc: where a response comes from - a registered backend (even n) or a next hop that is not one (odd n)
func (pr *vfProxyRun) respSrc(n int) (string, int) {
	if n%2 == 0 {
		return pr.g.ip("10.0.4.1"), 5060
	}
	return pr.g.ip("10.0.1.1"), 5070
}

func (pr *vfProxyRun) benchCfg(rc *vfRecipe) vfBenchCfg {
	g := pr.g
	c := vfBenchCfg{Names: vfNamesCfg, Keep: rc.Rc.Keep, Hosts: g.hosts()}
	c.Static = []vfRouteCfg{{"udp", "e.x", g.ip("10.0.1.4") + ":6001"}, {"tcp", "*.y", g.ip("10.0.1.5")}}
	if rc.Rc.To == "default" {
		c.Static = append(c.Static, vfRouteCfg{"udp", "default", g.ip("10.0.1.6")})
	}
	p1 := vfPCfg{Addr: g.ip("10.0.0.1"), Trans: []vfTCfg{{"UDP", rc.Rc.Lport, false}, {"TCP", rc.Rc.Lport + 1, false}, {"UDP", rc.Rc.Lport + 2, true}}, MustRR: rc.Rc.Mustrr, Recv: rc.Rc.Recv}
	if rc.Rc.Pool != "empty" {
		p1.Backends = []string{g.ip("10.0.4.1") + ":5060", g.ip("10.0.4.2") + ":5060"}
	} else {
		p1.Backends = nil
	}
	p2 := vfPCfg{Addr: g.ip("10.0.0.2"), Trans: []vfTCfg{{"UDP", rc.Rc.Lport, false}}, MustRR: rc.Rc.Mustrr, Recv: rc.Rc.Recv}
	c.Proxies = []vfPCfg{p1, p2}
	return c
}

func vfNameRecs() []vfM {
	var r []vfM
	for _, n := range strings.Split(vfNamesCfg, ",") {
		n = strings.TrimSpace(n)
		rec := vfM{"raw": n, "user": "", "host": "", "hasat": false}
		if i := strings.IndexByte(n, '@'); i >= 0 {
			rec["user"], rec["host"], rec["hasat"] = n[:i], n[i+1:], true
		}
		r = append(r, rec)
	}
	return r
}

func (pr *vfProxyRun) emitReset(id string, b *vfBench) {
	all := vfM{}
	var proxies []vfM
	for pi, pc := range b.cfg.Proxies {
		var lids []string
		for ti, tc := range pc.Trans {
			lid := fmt.Sprintf("p%d.t%d", pi+1, ti+1)
			lids = append(lids, lid)
			all[lid] = vfM{"lid": lid, "proto": tc.Proto, "addr": pc.Addr, "port": tc.Port}
		}
		proxies = append(proxies, vfM{"trans": lids, "mustrr": pc.MustRR, "recv": pc.Recv})
	}
	static := []vfM{}
	for _, s := range b.cfg.Static {
		host, port := s.NextHop, 0
		if i := strings.LastIndexByte(s.NextHop, ':'); i >= 0 {
			host = s.NextHop[:i]
			fmt.Sscanf(s.NextHop[i+1:], "%d", &port)
		}
		static = append(static, vfM{"pat": vfChars(s.Dest), "proto": s.Proto, "nhost": host, "nport": port})
	}
	pr.tr.Emit(vfM{"ev": "reset", "case": id, "cfg": vfM{"keep": b.cfg.Keep, "names": vfNameRecs(), "static": static, "all": all, "proxies": proxies}})
}

// resolv: what every host string of this step resolves to in the environment the driver built
func (pr *vfProxyRun) resolv(b *vfBench, ms ...vfAMsg) map[string]string {
	r := map[string]string{}
	add := func(h string) {
		if h == "" {
			return
		}
		if net.ParseIP(h) != nil {
			r[h] = h
		} else if ip, ok := b.cfg.Hosts[h]; ok {
			r[h] = ip
		}
	}
	for _, pc := range b.cfg.Proxies {
		add(pc.Addr)
	}
	for _, s := range b.cfg.Static {
		h := s.NextHop
		if i := strings.LastIndexByte(h, ':'); i >= 0 {
			h = h[:i]
		}
		add(h)
	}
	for _, m := range ms {
		add(m.Ruri.Host)
		for _, h := range m.Hdrs {
			for _, e := range h.Ents {
				add(e.Host)
				add(e.Uri.Host)
				for _, p := range e.Params {
					if p[0] == "received" {
						add(p[1])
					}
				}
			}
		}
	}
	return r
}

func (pr *vfProxyRun) step(id, cls string, b *vfBench, pi, ti int, srcIP string, srcPort int, raw []byte) {
	in := vfAlpha(raw)
	// self-check of gamma/alpha: what we generated must be readable by our own reader
	if in.Kind == "garbled" {
		pr.t.Fatalf("VF-INFRA alpha cannot read a generated message:\n%q", raw)
	}
	for _, h := range in.Hdrs {
		if h.Cls == "via" {
			for _, e := range h.Ents {
				for _, p := range e.Params {
					if p[0] == "branch" {
						pr.branches[p[1]] = true
					}
				}
			}
		}
	}
	var res vfStepRes
	pm := vfCatch(func() { res = b.inject(pi, ti, srcIP, srcPort, raw, nil) })
	if res.ParseErr != "" {
		pr.t.Fatalf("VF-INFRA generated message not accepted by the parser (%s):\n%q", res.ParseErr, raw)
	}
	outs := []vfM{}
	for _, o := range res.Outs {
		am := vfAlpha(o.Raw)
		cookie, fresh := false, false
		for _, h := range am.Hdrs {
			if h.Cls == "via" && len(h.Ents) > 0 {
				for _, p := range h.Ents[0].Params {
					if p[0] == "branch" {
						cookie = strings.HasPrefix(p[1], "z9hG4bK")
						fresh = !pr.branches[p[1]]
					}
				}
				break
			}
		}
		outs = append(outs, vfM{"kind": o.Kind, "addr": o.Addr, "ip": o.IP, "port": o.Port, "proto": o.Proto, "msg": am, "cookie": cookie, "fresh": fresh})
	}
	// the branches of the outputs are used from now on
	for _, o := range res.Outs {
		for _, h := range vfAlpha(o.Raw).Hdrs {
			if h.Cls == "via" {
				for _, e := range h.Ents {
					for _, p := range e.Params {
						if p[0] == "branch" {
							pr.branches[p[1]] = true
						}
					}
				}
			}
		}
	}
	tohost := []string{}
	for _, h := range in.Hdrs {
		if h.Cls == "to" && len(h.Ents) > 0 {
			tohost = vfChars(h.Ents[0].Uri.Host)
			break
		}
	}
	rx := vfM{"sip": false, "abs": false}
	if in.Kind == "req" {
		if in.Ruri.Scheme == "sip" || in.Ruri.Scheme == "sips" {
			s := in.Ruri.User + "@" + in.Ruri.Host
			for _, p := range pr.names {
				if p.MatchString(s) {
					rx["sip"] = true
				}
			}
		} else {
			f := strings.SplitN(string(raw), " ", 3)
			for _, p := range pr.names {
				if len(f) > 1 && p.MatchString(f[1]) {
					rx["abs"] = true
				}
			}
		}
	}
	var oms []vfAMsg
	for _, o := range res.Outs {
		oms = append(oms, vfAlpha(o.Raw))
	}
	pr.tr.Emit(vfM{"ev": "step", "case": id, "cls": cls, "pi": pi + 1, "lid": fmt.Sprintf("p%d.t%d", pi+1, ti+1),
		"src": vfM{"ip": srcIP, "port": srcPort}, "inmsg": in, "outs": outs, "pool": b.poolMembers(pi), "rx": rx, "tohost": tohost,
		"resolv": pr.resolv(b, append(oms, in)...), "panic": pm, "stuck": res.Stuck, "learned_obs": b.learned()})
}

func (pr *vfProxyRun) learnSteps(id string, b *vfBench, rc *vfRecipe) {
	g := pr.g
	pr.nlearn++
	layout := pr.nlearn % 5
	mk := func(viaHosts ...string) []byte {
		// the hosts a request lists in its Via entries are learnt whatever the layout of the Via stack: one entry per
		// line, comma-joined, compact name, other headers between the Via lines, Via lines at the end of the header
		var hs, vias []vfHdr
		name := "Via"
		if layout == 2 {
			name = "v"
		}
		var ents []string
		for i, h := range viaHosts {
			ents = append(ents, fmt.Sprintf("SIP/2.0/UDP %s;branch=z9hG4bKl%d", h, i))
		}
		if layout == 1 {
			vias = []vfHdr{{name, strings.Join(ents, ", ")}}
		} else {
			for _, e := range ents {
				vias = append(vias, vfHdr{name, e})
			}
		}
		rest := []vfHdr{{"Max-Forwards", "70"}, {"From", "<sip:l@l.example>;tag=l"}, {"To", "<sip:nobody@z.z>"}, {"Call-ID", "learn"}, {"CSeq", "1 OPTIONS"}, {"Content-Length", "0"}}
		switch layout {
		case 3: // other headers between the Via lines
			for i, v := range vias {
				hs = append(hs, v, rest[i%2])
			}
			hs = append(hs, rest[2:]...)
			if len(vias) < 2 {
				hs = append(hs, rest[1])
			}
		case 4: // Via lines last
			hs = append(append(hs, rest...), vias...)
		default:
			hs = append(append(hs, vias...), rest...)
		}
		return vfRender("OPTIONS sip:nobody@nowhere.example SIP/2.0", hs, nil)
	}
	switch rc.Rc.Learn {
	case "hop.p1":
		// learned through p1.t1: hop1 (as source), the static next hop and the named hop (as Via hosts); through p1.t2: hop2
		pr.step(id, "learn", b, 0, 0, g.ip("10.0.1.1"), 5070, mk(g.ip("10.0.1.4"), "n1.example.com"))
		pr.step(id, "learn", b, 0, 1, g.ip("10.0.1.2"), 33000, mk(g.ip("10.0.1.2")))
	case "hop.p1real":
		// learned through the real UDP listener socket p1.t3 (the proxy then sends from that very socket)
		pr.step(id, "learn", b, 0, 2, g.ip("10.0.1.1"), 5070, mk(g.ip("10.0.1.4"), g.ip("10.0.1.5")))
		pr.step(id, "learn", b, 0, 2, g.ip("10.0.1.2"), 33000, mk(g.ip("10.0.1.2")))
	case "hop.bk":
		// the request that teaches the hops comes from a backend's own address
		pr.step(id, "learn", b, 0, 0, g.ip("10.0.4.1"), 5060, mk(g.ip("10.0.1.1"), g.ip("10.0.1.4"), "n1.example.com"))
	case "ua.p1real":
		pr.step(id, "learn", b, 0, 2, g.ip("10.0.2.1"), 5062, mk(g.ip("10.0.2.1")))
	case "hop.p2":
		pr.step(id, "learn", b, 1, 0, g.ip("10.0.1.1"), 5070, mk(g.ip("10.0.1.5")))
	}
}

func TestVfProxy(t *testing.T) {
	tr := vfOpenTrace(t, "VERIF_TRACE")
	defer tr.Close()
	pr := &vfProxyRun{t: t, tr: tr, branches: map[string]bool{}}
	pr.g = &vfGamma{base: vfIPBase(), rnd: vfRand(3), decor: vfEnvInt("VERIF_DECOR", 1), hard: vfEnvInt("VERIF_HARD", 0) == 1}
	for _, n := range strings.Split(vfNamesCfg, ",") {
		if p, err := regexp.Compile(strings.TrimSpace(n)); err == nil {
			pr.names = append(pr.names, p)
		}
	}
	pr.sinks(0)
	in := vfEnv("VERIF_IN", "")
	if in == "" {
		t.Fatal("VERIF_IN not set")
	}
	stride := vfEnvInt("VERIF_STRIDE", 1)
	reps := vfEnvInt("VERIF_REPS", 1)
	seen := map[string]bool{}
	var recs []string
	vfReadBehaviours(t, in, func(raw []byte) {
		if !seen[string(raw)] {
			seen[string(raw)] = true
			recs = append(recs, string(raw))
		}
	})
	sort.Strings(recs)
	k := 0
	for _, raw := range recs {
		k++
		if stride > 1 && (int64(k)+vfSeed())%int64(stride) != 0 {
			continue
		}
		var rc vfRecipe
		if err := json.Unmarshal([]byte(raw), &rc); err != nil {
			t.Fatalf("bad recipe: %v", err)
		}
		for rep := 0; rep < reps; rep++ {
			id := fmt.Sprintf("r%d.%d", k, rep)
			if rep == 0 && vfEnvInt("VERIF_PLAINFIRST", 1) == 1 {
				pr.g.decor = 0
			} else {
				pr.g.decor = vfEnvInt("VERIF_DECOR", 1)
			}
			b := vfGetBench(t, pr.benchCfg(&rc))
			pr.emitReset(id, b)
			pr.learnSteps(id, b, &rc)
			cls := fmt.Sprintf("route=%s to=%s ruri=%s keep=%v lport=%d learn=%s pool=%s order=%s rvia=%s", strings.Join(rc.Route, "+"), rc.Rc.To, rc.Rc.Ruri, rc.Rc.Keep, rc.Rc.Lport, rc.Rc.Learn, rc.Rc.Pool, rc.Rc.Order, rc.Rc.Rvia)
			if rc.Rc.Kind == "req" {
				pr.step(id, cls, b, 0, 0, pr.g.ip("10.0.5.5"), 24000, pr.g.request(&rc))
			} else {
				// a response arrives from a backend address or from a next hop that is no backend (the peer of a request
				// relayed by Route / static route): the repetitions of a recipe alternate between the two
				sip, sport := pr.respSrc(k + rep)
				pr.step(id, cls+" from="+sip, b, 0, 0, sip, sport, pr.g.response(&rc))
			}
			pr.ncase++
		}
	}
	// histories: several recipes of one configuration in a row on the SAME proxy objects, nothing reset in between -
	// what an earlier message left behind (learnt routes, cached objects, transport table, rotation) is in play
	nseq := vfEnvInt("VERIF_SEQS", 40)
	if nseq > 0 && len(recs) > 0 {
		groups := map[string][]int{}
		var keys []string
		parsed := make([]*vfRecipe, len(recs))
		for i, raw := range recs {
			var rc vfRecipe
			if err := json.Unmarshal([]byte(raw), &rc); err != nil {
				continue
			}
			parsed[i] = &rc
			kb, _ := json.Marshal(pr.benchCfg(&rc))
			if _, ok := groups[string(kb)]; !ok {
				keys = append(keys, string(kb))
			}
			groups[string(kb)] = append(groups[string(kb)], i)
		}
		pr.g.decor = vfEnvInt("VERIF_DECOR", 1)
		for s := 0; s < nseq; s++ {
			g := groups[keys[pr.g.rnd.Intn(len(keys))]]
			id := fmt.Sprintf("seq%d", s)
			first := parsed[g[0]]
			b := vfGetBench(t, pr.benchCfg(first))
			pr.emitReset(id, b)
			n := 4 + pr.g.rnd.Intn(8)
			for j := 0; j < n; j++ {
				rc := parsed[g[pr.g.rnd.Intn(len(g))]]
				pr.learnSteps(id, b, rc)
				cls := fmt.Sprintf("history step=%d route=%s to=%s ruri=%s learn=%s order=%s rvia=%s", j, strings.Join(rc.Route, "+"), rc.Rc.To, rc.Rc.Ruri, rc.Rc.Learn, rc.Rc.Order, rc.Rc.Rvia)
				if rc.Rc.Kind == "req" {
					pr.step(id, cls, b, 0, 0, pr.g.ip("10.0.5.5"), 24000, pr.g.request(rc))
				} else {
					sip, sport := pr.respSrc(pr.g.rnd.Intn(2))
					pr.step(id, cls, b, 0, 0, sip, sport, pr.g.response(rc))
				}
			}
			pr.ncase++
		}
	}
	// fault histories: a dialog is established through a backend, then that backend cannot be reached any more (its Send
	// reports an error, as a TCP backend's does whose connection is gone and cannot be re-opened); whatever the proxy
	// still delivers for the dialog's further requests - nothing, or the request somewhere else - must carry ONE Via of
	// the proxy and Record-Route by policy like any other relayed request
	for s := 0; s < vfEnvInt("VERIF_FAULTHIST", 0); s++ {
		id := fmt.Sprintf("fault%d", s)
		g := pr.g
		cfg := vfBenchCfg{Names: vfNamesCfg, Hosts: g.hosts(), Proxies: []vfPCfg{{Addr: g.ip("10.0.0.1"), Trans: []vfTCfg{{"UDP", 5060, false}, {"TCP", 5061, false}},
			MustRR: s%2 == 0, Recv: true, Backends: []string{g.ip("10.0.4.1") + ":5060", g.ip("10.0.4.2") + ":5060", g.ip("10.0.4.3") + ":5060"}[:2+s%2]}}}
		b := vfGetBench(t, cfg)
		pr.emitReset(id, b)
		mkreq := func(method string, n int, totag string, rr bool) []byte {
			to := "<sip:service@svc.example.com>" + totag
			hs := []vfHdr{{g.name("Via"), fmt.Sprintf("SIP/2.0/UDP %s:5062;branch=z9hG4bKf%d-%d", g.ip("10.0.2.1"), s, n)}, {"Max-Forwards", "70"},
				{"From", fmt.Sprintf("<sip:a@a.example>;tag=ff%d", s)}, {"To", to}, {"Call-ID", fmt.Sprintf("fault-%d@%s", s, g.base)}, {"CSeq", fmt.Sprintf("%d %s", n, method)}}
			if rr {
				hs = append(hs, vfHdr{"Record-Route", fmt.Sprintf("<sip:%s:5060;lr>", g.ip("10.0.3.1"))})
			}
			hs = append(hs, vfHdr{"Content-Length", "0"})
			return vfRender(method+" sip:service@svc.example.com SIP/2.0", hs, nil)
		}
		count := func() map[string]int {
			m := map[string]int{}
			for a, d := range b.backs {
				d.mu.Lock()
				m[a] = len(d.got)
				d.mu.Unlock()
			}
			return m
		}
		before := count()
		pr.step(id, "fault-history initial INVITE", b, 0, 0, g.ip("10.0.5.5"), 24000, mkreq("INVITE", 1, "", false))
		holder := ""
		for a, n := range count() {
			if n > before[a] {
				holder = a
			}
		}
		if holder == "" {
			continue
		}
		hd := b.backs[holder]
		hd.mu.Lock()
		delivered := hd.got[len(hd.got)-1]
		hd.mu.Unlock()
		var hs []vfHdr
		for _, v := range vfViaLines(delivered) {
			hs = append(hs, vfHdr{"Via", v})
		}
		totag := fmt.Sprintf(";tag=bb%d", s)
		hs = append(hs, vfHdr{"From", fmt.Sprintf("<sip:a@a.example>;tag=ff%d", s)}, vfHdr{"To", "<sip:service@svc.example.com>" + totag},
			vfHdr{"Call-ID", fmt.Sprintf("fault-%d@%s", s, g.base)}, vfHdr{"CSeq", "1 INVITE"}, vfHdr{"Content-Length", "0"})
		i := strings.LastIndexByte(holder, ':')
		hport := 0
		fmt.Sscanf(holder[i+1:], "%d", &hport)
		pr.step(id, "fault-history answered 200", b, 0, 0, holder[:i], hport, vfRender("SIP/2.0 200 OK", hs, nil))
		pr.step(id, "fault-history ACK while the backend is up", b, 0, 0, g.ip("10.0.5.5"), 24000, mkreq("ACK", 1, totag, false))
		hd.mu.Lock()
		hd.fail = true
		hd.mu.Unlock()
		for n, m := range []string{"INFO", "UPDATE", "INVITE", "BYE"} {
			pr.step(id, "fault-history in-dialog "+m+" while the dialog's backend is unreachable", b, 0, 0, g.ip("10.0.5.5"), 24000, mkreq(m, 2+n, totag, n%2 == 1))
		}
		hd.mu.Lock()
		hd.fail = false
		hd.mu.Unlock()
		pr.ncase++
	}
	fmt.Printf("VF cases=%d events=%d\n", pr.ncase, tr.n)
}

// TestVfTcpPipeline: C01 over TCP ingress - bursts of requests pipelined on ONE real TCP connection to a real
// TCPServerTransport (the reader goroutine decodes the next messages while earlier ones still wait for the loop),
// relayed by static route to a UDP sink; every relayed message is compared with its own input.
func TestVfTcpPipeline(t *testing.T) {
	tr := vfOpenTrace(t, "VERIF_TRACE")
	defer tr.Close()
	pr := &vfProxyRun{t: t, tr: tr, branches: map[string]bool{}}
	pr.g = &vfGamma{base: vfIPBase(), rnd: vfRand(33), decor: 1, hard: true}
	for _, n := range strings.Split(vfNamesCfg, ",") {
		if p, err := regexp.Compile(strings.TrimSpace(n)); err == nil {
			pr.names = append(pr.names, p)
		}
	}
	g := pr.g
	sink := vfAllSinks.get(t, g.ip("10.0.1.4"), 6001)
	cfg := vfBenchCfg{Names: vfNamesCfg, Hosts: g.hosts(), Static: []vfRouteCfg{{"udp", "e.x", g.ip("10.0.1.4") + ":6001"}},
		Proxies: []vfPCfg{{Addr: g.ip("10.0.0.1"), Trans: []vfTCfg{{"UDP", 5060, false}, {"TCP", 0, true}}, Recv: true}}}
	b := vfGetBench(t, cfg)
	port := b.trans[0][1].(*TCPServerTransport).port
	nb := vfEnvInt("VERIF_NBURST", 12)
	ncase := 0
	for bi := 0; bi < nb; bi++ {
		id := fmt.Sprintf("pipe%d", bi)
		b.reset(t)
		pr.emitReset(id, b)
		cli := vfDial(t, g.ip("10.0.5.5"), g.ip("10.0.0.1"), port)
		if !b.wait("loop.conn") {
			t.Fatalf("VF-INFRA accepted connection not processed")
		}
		n := 5 + g.rnd.Intn(40)
		var raws [][]byte
		var all []byte
		for i := 0; i < n; i++ {
			X := g.extHeaders()
			if len(X) > 4 {
				X = X[:4]
			}
			bl := []int{0, 10, 300, 3000}[g.rnd.Intn(4)]
			body := make([]byte, bl)
			for j := range body {
				body[j] = byte('A' + (bi*7+i)%26)
			}
			hs := []vfHdr{{"Via", fmt.Sprintf("SIP/2.0/TCP %s:5062;branch=z9hG4bKp%d-%d", g.ip("10.0.2.1"), bi, i)}, {"Max-Forwards", "70"},
				{"From", "<sip:a@a.example>;tag=f"}, {"To", "<sip:b@e.x>"}, {"Call-ID", fmt.Sprintf("%s-%d", id, i)}, {"CSeq", "1 MESSAGE"}}
			for _, x := range X {
				if len(x.v) < 3000 { // header lines stay below the reader window here: long lines are C11's business
					hs = append(hs, x)
				}
			}
			hs = append(hs, vfHdr{g.name("Content-Length"), fmt.Sprint(bl)})
			raw := vfRender("MESSAGE sip:b@e.x SIP/2.0", hs, body)
			raws = append(raws, raw)
			all = append(all, raw...)
		}
		vfAllSinks.pollAll()
		// the whole burst in a few large writes
		for len(all) > 0 {
			k := 1 + g.rnd.Intn(len(all))
			cli.write(all[:k])
			all = all[k:]
		}
		stuck := false
		for i := 0; i < n; i++ {
			if !b.wait("loop.msg") {
				stuck = true
				break
			}
		}
		got := map[string][]vfRecv{}
		for _, rv := range sink.poll() {
			cid := ""
			for _, h := range vfAlpha(rv.raw).Hdrs {
				if h.Cls == "callid" {
					cid = h.Val
				}
			}
			got[cid] = append(got[cid], rv)
		}
		for i, raw := range raws {
			in := vfAlpha(raw)
			outs := []vfM{}
			var oms []vfAMsg
			for _, rv := range got[fmt.Sprintf("%s-%d", id, i)] {
				am := vfAlpha(rv.raw)
				oms = append(oms, am)
				outs = append(outs, vfM{"kind": "sink", "addr": fmt.Sprintf("%s:%d", rv.ip, rv.port), "ip": rv.ip, "port": rv.port, "proto": rv.proto, "msg": am, "cookie": true, "fresh": true})
			}
			pr.tr.Emit(vfM{"ev": "step", "case": id, "cls": fmt.Sprintf("tcp-pipelined burst=%d index=%d", n, i), "pi": 1, "lid": "p1.t2",
				"src": vfM{"ip": cli.ip, "port": cli.port}, "inmsg": in, "outs": outs, "pool": []string{}, "rx": vfM{"sip": false, "abs": false}, "tohost": vfChars("e.x"),
				"resolv": pr.resolv(b, append(oms, in)...), "panic": "", "stuck": stuck, "learned_obs": vfM{}})
		}
		cli.close()
		ncase++
	}
	fmt.Printf("VF cases=%d events=%d\n", ncase, tr.n)
}

// TestVfConcurrentRelay: C01 "over every listener configuration" - a service with two listeners has two message loops
// that relay at the same time.  Loop 1 relays each of its requests to a next hop over a TCP connection it still has to
// open (the widest window between encoding a message and handing it to the kernel), loop 2 relays a stream of requests
// to a UDP next hop meanwhile.  Every message that arrives at a next hop is compared with the input it belongs to:
// the TCP next hops each serve one request of the round (attribution by destination), the UDP stream keeps its order
// (one loop, one socket, loopback).
func TestVfConcurrentRelay(t *testing.T) {
	tr := vfOpenTrace(t, "VERIF_TRACE")
	defer tr.Close()
	pr := &vfProxyRun{t: t, tr: tr, branches: map[string]bool{}}
	pr.g = &vfGamma{base: vfIPBase(), rnd: vfRand(34), decor: 1, hard: true}
	for _, n := range strings.Split(vfNamesCfg, ",") {
		if p, err := regexp.Compile(strings.TrimSpace(n)); err == nil {
			pr.names = append(pr.names, p)
		}
	}
	g := pr.g
	const nhop = 16
	usink := vfAllSinks.get(t, g.ip("10.0.1.4"), 6001)
	var tsinks []*vfSink
	static := []vfRouteCfg{{"udp", "e.x", g.ip("10.0.1.4") + ":6001"}}
	for k := 0; k < nhop; k++ {
		tsinks = append(tsinks, vfAllSinks.get(t, g.ip("10.0.1.5"), 6100+k))
		static = append(static, vfRouteCfg{"tcp", fmt.Sprintf("t%d.y", k), fmt.Sprintf("%s:%d", g.ip("10.0.1.5"), 6100+k)})
	}
	cfg := vfBenchCfg{Names: vfNamesCfg, Hosts: g.hosts(), Static: static,
		Proxies: []vfPCfg{{Addr: g.ip("10.0.0.1"), Trans: []vfTCfg{{"UDP", 5060, false}}, Recv: true}, {Addr: g.ip("10.0.0.2"), Trans: []vfTCfg{{"UDP", 5060, false}}, Recv: true}}}
	b := vfGetBench(t, cfg)
	nround := vfEnvInt("VERIF_NROUND", 12)
	ncase := 0
	mk := func(id string, i int, tohost string) []byte {
		X := g.extHeaders()
		if len(X) > 3 {
			X = X[:3]
		}
		bl := []int{0, 10, 300, 1200}[g.rnd.Intn(4)]
		body := make([]byte, bl)
		for j := range body {
			body[j] = byte('a' + (i*11+j)%26)
		}
		hs := []vfHdr{{"Via", fmt.Sprintf("SIP/2.0/UDP %s:5062;branch=z9hG4bKc%s-%d", g.ip("10.0.2.1"), id, i)}, {"Max-Forwards", "70"},
			{"From", fmt.Sprintf("<sip:a%d@a.example>;tag=f%d", i, i)}, {"To", "<sip:b@" + tohost + ">"}, {"Call-ID", fmt.Sprintf("%s-%d", id, i)}, {"CSeq", fmt.Sprintf("%d MESSAGE", i+1)}}
		for _, x := range X {
			if len(x.v) < 600 {
				hs = append(hs, x)
			}
		}
		hs = append(hs, vfHdr{g.name("Content-Length"), fmt.Sprint(bl)})
		return vfRender("MESSAGE sip:b@"+tohost+" SIP/2.0", hs, body)
	}
	for ri := 0; ri < nround; ri++ {
		id := fmt.Sprintf("conc%d", ri)
		b.reset(t) // no connection is open: every TCP next hop of the round has to be dialled
		pr.emitReset(id, b)
		nudp := 40 + g.rnd.Intn(40)
		var in1, in2 [][]byte
		for k := 0; k < nhop; k++ {
			in1 = append(in1, mk(id+"t", k, fmt.Sprintf("t%d.y", k)))
		}
		for i := 0; i < nudp; i++ {
			in2 = append(in2, mk(id+"u", i, "e.x"))
		}
		vfAllSinks.pollAll()
		parse := func(raw []byte) *Message {
			m, err := ParseMessage(bufio.NewReaderSize(bytes.NewBuffer(raw), len(raw)))
			if err != nil {
				t.Fatalf("VF-INFRA generated message not accepted by the parser (%v):\n%q", err, raw)
			}
			return m
		}
		var wg sync.WaitGroup
		feed := func(pi int, ins [][]byte) {
			defer wg.Done()
			for _, raw := range ins {
				b.proxies[pi].HandleRawMessage(NewRawMessage(g.ip("10.0.5.5"), 24000+pi, b.trans[pi][0], true, parse(raw)))
			}
		}
		wg.Add(2)
		go feed(0, in1)
		go feed(1, in2)
		wg.Wait()
		stuck := false
		for i := 0; i < len(in1)+len(in2); i++ {
			if !b.wait("loop.msg") {
				stuck = true
				break
			}
		}
		emit := func(pi int, i int, raw []byte, got []vfRecv, cls string) {
			in := vfAlpha(raw)
			outs := []vfM{}
			oms := []vfAMsg{in}
			for _, rv := range got {
				am := vfAlpha(rv.raw)
				oms = append(oms, am)
				outs = append(outs, vfM{"kind": "sink", "addr": fmt.Sprintf("%s:%d", rv.ip, rv.port), "ip": rv.ip, "port": rv.port, "proto": rv.proto, "msg": am, "cookie": true, "fresh": true})
			}
			tohost := ""
			for _, h := range in.Hdrs {
				if h.Cls == "to" && len(h.Ents) > 0 {
					tohost = h.Ents[0].Uri.Host
				}
			}
			tr.Emit(vfM{"ev": "step", "case": id, "cls": cls, "pi": pi + 1, "lid": fmt.Sprintf("p%d.t1", pi+1),
				"src": vfM{"ip": g.ip("10.0.5.5"), "port": 24000 + pi}, "inmsg": in, "outs": outs, "pool": []string{}, "rx": vfM{"sip": false, "abs": false}, "tohost": vfChars(tohost),
				"resolv": pr.resolv(b, oms...), "panic": "", "stuck": stuck, "learned_obs": vfM{}})
		}
		for k, raw := range in1 {
			emit(0, k, raw, tsinks[k].poll(), fmt.Sprintf("two-loops tcp-next-hop-to-dial index=%d", k))
		}
		got := usink.poll()
		if len(got) == len(in2) {
			for i, raw := range in2 {
				emit(1, i, raw, got[i:i+1], fmt.Sprintf("two-loops udp-stream n=%d index=%d", nudp, i))
			}
		} else {
			// not one datagram per request (C03's business): attribute by Call-ID, what matches nothing goes to the first request
			byCid := map[string][]vfRecv{}
			for _, rv := range got {
				cid := ""
				for _, h := range vfAlpha(rv.raw).Hdrs {
					if h.Cls == "callid" {
						cid = h.Val
					}
				}
				if !strings.HasPrefix(cid, id+"u-") {
					cid = id + "u-0"
				}
				byCid[cid] = append(byCid[cid], rv)
			}
			for i, raw := range in2 {
				emit(1, i, raw, byCid[fmt.Sprintf("%su-%d", id, i)], fmt.Sprintf("two-loops udp-stream n=%d index=%d", nudp, i))
			}
		}
		ncase++
	}
	fmt.Printf("VF cases=%d events=%d\n", ncase, tr.n)
}
