//go:build verif

package main

// Driver for the configuration wiring of C07: the objects are created by
// loadConfigFromReader + startProxy from YAML (both values of no-received, and
// the default), with real UDP/TCP listeners, real UDP and TCP backends and a
// real TCP next hop on loopback.  Covered readers: (a) the configured UDP
// listener, (b) the reader of an accepted TCP connection, (c) the readers
// created for outbound TCP connections (to a TCP backend and to a TCP next
// hop) - reached by sending a request BACK over the connection the proxy opened.

import (
	"fmt"
	"net"
	"os"
	"sort"
	"strconv"
	"strings"
	"sync"
	"sync/atomic"
	"syscall"
	"testing"
	"time"
)

// vfFreePort returns a port of ip that is free for UDP and for TCP and that this process has not handed out before
// (two probes in a row may otherwise be given the same ephemeral port, and a port free for UDP need not be free for TCP)
var vfPortsGiven = map[string]bool{}
var vfPortsMu sync.Mutex

func vfFreePort(t testing.TB, ip string) int {
	vfPortsMu.Lock()
	defer vfPortsMu.Unlock()
	for try := 0; try < 200; try++ {
		l, err := net.ListenUDP("udp", &net.UDPAddr{IP: net.ParseIP(ip)})
		if err != nil {
			t.Fatalf("VF-INFRA no free port: %v", err)
		}
		p := l.LocalAddr().(*net.UDPAddr).Port
		key := fmt.Sprintf("%s:%d", ip, p)
		tl, terr := net.Listen("tcp", key)
		if terr == nil {
			tl.Close()
		}
		l.Close()
		if terr != nil || vfPortsGiven[key] {
			continue
		}
		vfPortsGiven[key] = true
		return p
	}
	t.Fatalf("VF-INFRA no port free for both UDP and TCP on %s", ip)
	return 0
}

// waitSink polls the sinks until something arrives (or the deadline passes)
func vfWaitSinks(d time.Duration) []vfRecv {
	end := time.Now().Add(d)
	for {
		r := vfAllSinks.pollAll()
		if len(r) > 0 {
			// give a possible second (stray) message a moment
			time.Sleep(20 * time.Millisecond)
			return append(r, vfAllSinks.pollAll()...)
		}
		if time.Now().After(end) {
			return nil
		}
		time.Sleep(2 * time.Millisecond)
	}
}

type vfWiring struct {
	branches map[string]bool
	keep     bool
	t        *testing.T
	tr       *vfTrace
	g        *vfGamma
	id       string
	recv     bool
	udp      int
	tcp      int
	nreq     int
	hosts    vfM    // the two host tables of the configuration (service level, top level) when the case has any
	static   []vfM  // the static routes of the configuration, in configuration order
	recvCfg  string // the no-received key of the listens entry as written ("true" / "false" / "absent"), "" when the case has none
	keepCfg  vfM    // keep-next-hop-route as written (YAML value and environment variable, lower-cased): TLC computes what it means
}

func (w *vfWiring) reset(id string, recv bool, udp, tcp int) {
	w.id, w.recv, w.udp, w.tcp = id, recv, udp, tcp
	la := w.g.ip("10.0.0.1")
	all := vfM{"p1.t1": vfM{"lid": "p1.t1", "proto": "UDP", "addr": la, "port": udp}, "p1.t2": vfM{"lid": "p1.t2", "proto": "TCP", "addr": la, "port": tcp}}
	static := w.static
	if static == nil {
		static = []vfM{}
	}
	cfg := vfM{"keep": w.keep, "names": vfNameRecs(), "static": static, "all": all,
		"proxies": []vfM{{"trans": []string{"p1.t1", "p1.t2"}, "mustrr": false, "recv": recv}}}
	if w.recvCfg != "" { // TLC computes received-support from the key as written (ConfigOps.EffRecvKey); "recv" is then not read
		cfg["proxies"] = []vfM{{"trans": []string{"p1.t1", "p1.t2"}, "mustrr": false, "recv": recv, "recv_cfg": w.recvCfg}}
	}
	if w.hosts != nil {
		cfg["hosts"] = w.hosts
	}
	if w.keepCfg != nil {
		cfg["keep_cfg"] = w.keepCfg
	}
	w.tr.Emit(vfM{"ev": "reset", "case": id, "cfg": cfg})
}

func (w *vfWiring) request(ruri string, route string, viaProto, viaHost string, rport string, n int) []byte {
	hs := []vfHdr{}
	if route != "" {
		hs = append(hs, vfHdr{"Route", route})
	}
	top := fmt.Sprintf("SIP/2.0/%s %s;branch=z9hG4bKw%d%s", viaProto, viaHost, n, rport)
	hs = append(hs, vfHdr{"Via", top}, vfHdr{"Via", fmt.Sprintf("SIP/2.0/UDP %s:5064;branch=z9hG4bKdeep%d;received=9.9.9.9;rport=99", w.g.ip("10.0.2.2"), n)},
		vfHdr{"Max-Forwards", "70"}, vfHdr{"From", "<sip:a@a.example>;tag=f"}, vfHdr{"To", "<sip:b@z.z>"},
		vfHdr{"Call-ID", fmt.Sprintf("wiring-%s-%d", w.id, n)}, vfHdr{"CSeq", "1 OPTIONS"}, vfHdr{"Content-Length", "0"})
	return vfRender("OPTIONS "+ruri+" SIP/2.0", hs, nil)
}

// emit one step: what the proxy sent for the request raw that really came from src through transport lid
func (w *vfWiring) emit(cls, lid string, srcIP string, srcPort int, raw []byte, got []vfRecv) {
	in := vfAlpha(raw)
	outs := []vfM{}
	rmap := map[string]string{}
	add := func(h string) {
		if net.ParseIP(h) != nil {
			rmap[h] = h
		}
	}
	for _, rv := range got {
		am := vfAlpha(rv.raw)
		// the branch of the top Via of what was relayed: RFC 3261 cookie, and never seen before in this run - whichever
		// listener / Proxy object of whichever service stamped it
		cookie, fresh := true, true
		inTop := ""
		for _, h := range in.Hdrs {
			if h.Cls == "via" && len(h.Ents) > 0 {
				for _, p := range h.Ents[0].Params {
					if p[0] == "branch" {
						inTop = p[1]
					}
				}
				break
			}
		}
		for _, h := range am.Hdrs {
			if h.Cls == "via" && len(h.Ents) > 0 {
				for _, p := range h.Ents[0].Params {
					if p[0] == "branch" && p[1] != inTop {
						cookie = strings.HasPrefix(p[1], "z9hG4bK")
						if w.branches == nil {
							w.branches = map[string]bool{}
						}
						fresh = !w.branches[p[1]]
						w.branches[p[1]] = true
					}
				}
				break
			}
		}
		outs = append(outs, vfM{"kind": "sink", "addr": fmt.Sprintf("%s:%d", rv.ip, rv.port), "ip": rv.ip, "port": rv.port, "proto": rv.proto, "msg": am, "cookie": cookie, "fresh": fresh})
		for _, h := range am.Hdrs {
			for _, e := range h.Ents {
				add(e.Host)
			}
		}
	}
	for _, h := range in.Hdrs {
		for _, e := range h.Ents {
			add(e.Host)
			add(e.Uri.Host)
		}
	}
	add(w.g.ip("10.0.0.1"))       // the listener's own address is a literal too
	for _, st := range w.static { // and so are the configured next hops
		if h, ok := st["nhost"].(string); ok {
			add(h)
		}
	}
	tohost := "z.z"
	for _, h := range in.Hdrs {
		if h.Cls == "to" && len(h.Ents) > 0 {
			tohost = h.Ents[0].Uri.Host
		}
	}
	w.tr.Emit(vfM{"ev": "step", "case": w.id, "cls": cls, "pi": 1, "lid": lid, "src": vfM{"ip": srcIP, "port": srcPort}, "inmsg": in, "outs": outs,
		"pool": []string{}, "rx": vfM{"sip": false, "abs": false}, "tohost": vfChars(tohost), "resolv": rmap, "panic": "", "stuck": false, "learned_obs": vfM{}})
}

func TestVfWiring(t *testing.T) {
	tr := vfOpenTrace(t, "VERIF_TRACE")
	defer tr.Close()
	g := &vfGamma{base: vfIPBase(), rnd: vfRand(7)}
	w := &vfWiring{t: t, tr: tr, g: g}
	la := g.ip("10.0.0.1")
	ubk := vfAllSinks.get(t, g.ip("10.0.4.1"), 5060)  // UDP backend
	tbk := vfAllSinks.get(t, g.ip("10.0.4.2"), 5060)  // TCP backend
	vfAllSinks.get(t, g.ip("10.0.1.1"), 5070)         // UDP next hop
	thop := vfAllSinks.get(t, g.ip("10.0.1.2"), 5060) // TCP next hop
	vfAllSinks.get(t, g.ip("10.0.2.1"), 5062)         // the address the clients announce in their Via
	_ = ubk
	ncase := 0
	for ci, noRecv := range []string{"no-received: false", "no-received: true", ""} {
		recv := noRecv != "no-received: true" // (for naming the cases; the verdict uses recv_cfg)
		w.recvCfg = map[string]string{"no-received: false": "false", "no-received: true": "true", "": "absent"}[noRecv]
		udp, tcp := vfFreePort(t, la), vfFreePort(t, la)
		// two listen entries: one with a UDP backend, one with a TCP backend (same flag)
		udp2, tcp2 := vfFreePort(t, la), vfFreePort(t, la)
		yaml := fmt.Sprintf(`proxies:
- name: svc.example.com
  listens:
  - address: %s
    udp-port: %d
    tcp-port: %d
    %s
    backends:
    - udp://%s:5060
`, la, udp, tcp, noRecv, g.ip("10.0.4.1"))
		yaml2 := fmt.Sprintf(`proxies:
- name: tcpsvc.example.com
  listens:
  - address: %s
    udp-port: %d
    tcp-port: %d
    %s
    backends:
    - tcp://%s:5060
`, la, udp2, tcp2, noRecv, g.ip("10.0.4.2"))
		for _, y := range []string{yaml, yaml2} {
			cfg, err := loadConfigFromReader(strings.NewReader(y))
			if err != nil {
				t.Fatalf("VF-INFRA yaml: %v\n%s", err, y)
			}
			for _, pc := range cfg.Proxies {
				if err := startProxy(pc, createPreConfigRoute(pc), createPreConfigHostResolver(cfg.Hosts, pc)); err != nil {
					t.Fatalf("VF-INFRA startProxy: %v", err)
				}
			}
		}
		time.Sleep(50 * time.Millisecond)
		announce := fmt.Sprintf("%s:5062", g.ip("10.0.2.1"))
		rports := []string{"", ";rport", ";rport=9;received=1.2.3.4", ";received=1.2.3.4;rport"}

		// (a) the configured UDP listener
		w.reset(fmt.Sprintf("wiring%d-udp-%v", ci, recv), recv, udp, tcp)
		cli, err := net.ListenUDP("udp", &net.UDPAddr{IP: net.ParseIP(g.ip("10.0.5.5")), Port: 0})
		if err != nil {
			t.Fatalf("VF-INFRA %v", err)
		}
		cport := cli.LocalAddr().(*net.UDPAddr).Port
		for i, rp := range rports {
			raw := w.request("sip:alice@svc.example.com", "", "UDP", announce, rp, i)
			vfAllSinks.pollAll()
			cli.WriteToUDP(raw, &net.UDPAddr{IP: net.ParseIP(la), Port: udp})
			w.emit("udp-listener"+rp, "p1.t1", g.ip("10.0.5.5"), cport, raw, vfWaitSinks(2*time.Second))
		}
		cli.Close()
		ncase++

		// (a2) the same listener under back-to-back datagrams from several sources (distinct addresses and ports):
		// each request must carry the source of ITS datagram, whatever else the receive goroutine has read meanwhile
		w.reset(fmt.Sprintf("wiring%d-udp-burst-%v", ci, recv), recv, udp, tcp)
		const nsrc = 8
		var clis [nsrc]*net.UDPConn
		for k := range clis {
			c, err := net.ListenUDP("udp", &net.UDPAddr{IP: net.ParseIP(g.ip(fmt.Sprintf("10.0.5.%d", 10+k%4))), Port: 0})
			if err != nil {
				t.Fatalf("VF-INFRA %v", err)
			}
			clis[k] = c
		}
		lost := 0
		for round := 0; round < 12; round++ {
			vfAllSinks.pollAll()
			var raws [nsrc][]byte
			for k, c := range clis {
				raws[k] = w.request("sip:alice@svc.example.com", "", "UDP", announce, rports[(round+k)%len(rports)], 1000+round*nsrc+k)
				c.WriteToUDP(raws[k], &net.UDPAddr{IP: net.ParseIP(la), Port: udp})
			}
			var got []vfRecv
			for end := time.Now().Add(2 * time.Second); len(got) < nsrc && time.Now().Before(end); time.Sleep(time.Millisecond) {
				got = append(got, vfAllSinks.pollAll()...)
			}
			for k, c := range clis {
				var mine []vfRecv
				for _, rv := range got {
					if strings.Contains(string(rv.raw), fmt.Sprintf("wiring-%s-%d\r\n", w.id, 1000+round*nsrc+k)) {
						mine = append(mine, rv)
					}
				}
				if len(mine) == 0 { // a datagram the kernel dropped is not this property's subject
					lost++
					continue
				}
				a := c.LocalAddr().(*net.UDPAddr)
				w.emit("udp-burst"+rports[(round+k)%len(rports)], "p1.t1", a.IP.String(), a.Port, raws[k], mine)
			}
		}
		for _, c := range clis {
			c.Close()
		}
		if lost > 12*nsrc/2 {
			t.Fatalf("VF-INFRA %d of %d burst requests were not relayed", lost, 12*nsrc)
		}
		ncase++

		// (b) the reader of an accepted TCP connection
		w.reset(fmt.Sprintf("wiring%d-tcp-accepted-%v", ci, recv), recv, udp, tcp)
		d := net.Dialer{LocalAddr: &net.TCPAddr{IP: net.ParseIP(g.ip("10.0.5.5"))}, Timeout: 2 * time.Second}
		conn, err := d.Dial("tcp", fmt.Sprintf("%s:%d", la, tcp))
		if err != nil {
			t.Fatalf("VF-INFRA cannot connect to the TCP listener: %v", err)
		}
		tport := conn.LocalAddr().(*net.TCPAddr).Port
		for i, rp := range rports {
			raw := w.request("sip:alice@svc.example.com", "", "TCP", announce, rp, 10+i)
			vfAllSinks.pollAll()
			conn.Write(raw)
			w.emit("tcp-accepted"+rp, "p1.t2", g.ip("10.0.5.5"), tport, raw, vfWaitSinks(2*time.Second))
		}
		conn.Close()
		ncase++

		// (c1) the reader created for the outbound connection to a TCP backend:
		// make the proxy open it, then the backend sends a request back over it, routed on to a UDP next hop
		w.reset(fmt.Sprintf("wiring%d-tcp-backend-conn-%v", ci, recv), recv, udp2, tcp2)
		cli2, _ := net.ListenUDP("udp", &net.UDPAddr{IP: net.ParseIP(g.ip("10.0.5.5")), Port: 0})
		vfAllSinks.pollAll()
		cli2.WriteToUDP(w.request("sip:alice@tcpsvc.example.com", "", "UDP", announce, "", 20), &net.UDPAddr{IP: net.ParseIP(la), Port: udp2})
		got := vfWaitSinks(2 * time.Second)
		cli2.Close()
		bfd := 0
		for _, rv := range got {
			if rv.proto == "tcp" && rv.ip == tbk.ip {
				bfd = rv.conn
			}
		}
		if bfd == 0 {
			t.Fatalf("VF-INFRA the proxy did not open a TCP connection to its TCP backend (got %d messages)", len(got))
		}
		bsrc := tbk.csrc[bfd] // the proxy's end of the connection, as the backend sees it: irrelevant; the proxy sees the backend as peer
		_ = bsrc
		for i, rp := range rports {
			raw := w.request("sip:carol@elsewhere.example", fmt.Sprintf("<sip:%s:5070;lr>", g.ip("10.0.1.1")), "TCP", announce, rp, 30+i)
			vfAllSinks.pollAll()
			syscall.Write(bfd, raw)
			w.emit("tcp-backend-conn"+rp, "p1.t2", tbk.ip, tbk.port, raw, vfWaitSinks(2*time.Second))
		}
		ncase++

		// (c2) the reader created for the outbound connection to a TCP next hop
		w.reset(fmt.Sprintf("wiring%d-tcp-nexthop-conn-%v", ci, recv), recv, udp, tcp)
		cli3, _ := net.ListenUDP("udp", &net.UDPAddr{IP: net.ParseIP(g.ip("10.0.5.5")), Port: 0})
		vfAllSinks.pollAll()
		cli3.WriteToUDP(w.request("sip:carol@elsewhere.example", fmt.Sprintf("<sip:%s;transport=tcp;lr>", g.ip("10.0.1.2")), "UDP", announce, "", 40), &net.UDPAddr{IP: net.ParseIP(la), Port: udp})
		got = vfWaitSinks(2 * time.Second)
		cli3.Close()
		hfd := 0
		for _, rv := range got {
			if rv.proto == "tcp" && rv.ip == thop.ip {
				hfd = rv.conn
			}
		}
		if hfd == 0 {
			t.Fatalf("VF-INFRA the proxy did not open a TCP connection to the TCP next hop (got %d messages)", len(got))
		}
		for i, rp := range rports {
			raw := w.request("sip:carol@elsewhere.example", fmt.Sprintf("<sip:%s:5070;lr>", g.ip("10.0.1.1")), "TCP", announce, rp, 50+i)
			vfAllSinks.pollAll()
			syscall.Write(hfd, raw)
			w.emit("tcp-nexthop-conn"+rp, "p1.t2", thop.ip, thop.port, raw, vfWaitSinks(2*time.Second))
		}
		ncase++
	}
	w.recvCfg = ""
	// (d) one service with SEVERAL listeners whose no-received values differ, in both orders: the option is per listener
	for mi, flags := range [][]string{{"no-received: true", ""}, {"", "no-received: true"}, {"no-received: false", "no-received: true", "no-received: false"}} {
		var y strings.Builder
		fmt.Fprintf(&y, "proxies:\n- name: multi%d.example.com\n  listens:\n", mi)
		type lp struct {
			udp, tcp int
			recv     bool
		}
		var ls []lp
		for _, f := range flags {
			l := lp{vfFreePort(t, la), vfFreePort(t, la), f != "no-received: true"}
			ls = append(ls, l)
			fmt.Fprintf(&y, "  - address: %s\n    udp-port: %d\n    tcp-port: %d\n    %s\n    backends:\n    - udp://%s:5060\n", la, l.udp, l.tcp, f, g.ip("10.0.4.1"))
		}
		cfg, err := loadConfigFromReader(strings.NewReader(y.String()))
		if err != nil {
			t.Fatalf("VF-INFRA yaml: %v\n%s", err, y.String())
		}
		for _, pc := range cfg.Proxies {
			if err := startProxy(pc, createPreConfigRoute(pc), createPreConfigHostResolver(cfg.Hosts, pc)); err != nil {
				t.Fatalf("VF-INFRA startProxy: %v", err)
			}
		}
		time.Sleep(50 * time.Millisecond)
		announce := fmt.Sprintf("%s:5062", g.ip("10.0.2.1"))
		for li, l := range ls {
			w.recvCfg = map[string]string{"no-received: false": "false", "no-received: true": "true", "": "absent"}[flags[li]]
			w.reset(fmt.Sprintf("wiring-multi%d-listener%d-%v", mi, li, l.recv), l.recv, l.udp, l.tcp)
			cli, err := net.ListenUDP("udp", &net.UDPAddr{IP: net.ParseIP(g.ip("10.0.5.5")), Port: 0})
			if err != nil {
				t.Fatalf("VF-INFRA %v", err)
			}
			cport := cli.LocalAddr().(*net.UDPAddr).Port
			for i, rp := range []string{"", ";rport", ";rport=9;received=1.2.3.4"} {
				raw := w.request(fmt.Sprintf("sip:alice@multi%d.example.com", mi), "", "UDP", announce, rp, 2000+10*li+i)
				vfAllSinks.pollAll()
				cli.WriteToUDP(raw, &net.UDPAddr{IP: net.ParseIP(la), Port: l.udp})
				w.emit("multi-listener"+rp, "p1.t1", g.ip("10.0.5.5"), cport, raw, vfWaitSinks(2*time.Second))
			}
			cli.Close()
			ncase++
		}
	}
	fmt.Printf("VF cases=%d events=%d\n", ncase, tr.n)
}

// Driver for the configuration wiring of C13: the service's keep-next-hop-route setting as it is spelled in the YAML
// (or, when the key is absent, in the KEEP_NEXT_HOP_ROUTE environment variable): true / yes / 1 / on / t / y in any
// letter case mean "relay the entry that names the next hop", anything else "strip it".  Objects are created by
// loadConfigFromReader + startProxy; a request with the Route set  <listener>, <next hop>, <further>  arrives at the real
// UDP listener and is observed at the next hop's socket.
func TestVfKeepWiring(t *testing.T) {
	tr := vfOpenTrace(t, "VERIF_TRACE")
	defer tr.Close()
	g := &vfGamma{base: vfIPBase(), rnd: vfRand(13)}
	w := &vfWiring{t: t, tr: tr, g: g}
	la := g.ip("10.0.0.1")
	vfAllSinks.get(t, g.ip("10.0.1.1"), 5070) // the next hop
	vfAllSinks.get(t, g.ip("10.0.4.1"), 5060) // the backend
	type sp struct {
		yaml, env string
		keep      bool
	}
	cases := []sp{{"true", "", true}, {"yes", "", true}, {"\"1\"", "", true}, {"\"on\"", "", true}, {"t", "", true}, {"\"y\"", "", true}, {"\"YES\"", "", true}, {"\"On\"", "", true}, {"tRuE", "", true}, {"\"Y\"", "", true},
		{"false", "", false}, {"\"no\"", "", false}, {"\"0\"", "", false}, {"\"off\"", "", false}, {"\"\"", "", false}, {"nope", "", false},
		{"", "", false}, {"", "yes", true}, {"", "ON", true}, {"", "1", true}, {"", "false", false}, {"\"no\"", "yes", false}, {"\"yes\"", "no", true}}
	ncase := 0
	for ci, c := range cases {
		udp, tcp := vfFreePort(t, la), vfFreePort(t, la)
		key := ""
		if c.yaml != "" {
			key = "  keepNextHopRoute: " + c.yaml + "\n"
		}
		y := fmt.Sprintf("proxies:\n- name: keep%d.example.com\n%s  listens:\n  - address: %s\n    udp-port: %d\n    tcp-port: %d\n    backends:\n    - udp://%s:5060\n", ci, key, la, udp, tcp, g.ip("10.0.4.1"))
		if c.env != "" {
			os.Setenv("KEEP_NEXT_HOP_ROUTE", c.env)
		} else {
			os.Unsetenv("KEEP_NEXT_HOP_ROUTE")
		}
		cfg, err := loadConfigFromReader(strings.NewReader(y))
		if err != nil {
			t.Fatalf("VF-INFRA yaml: %v\n%s", err, y)
		}
		for _, pc := range cfg.Proxies {
			if err := startProxy(pc, createPreConfigRoute(pc), createPreConfigHostResolver(cfg.Hosts, pc)); err != nil {
				t.Fatalf("VF-INFRA startProxy: %v", err)
			}
		}
		os.Unsetenv("KEEP_NEXT_HOP_ROUTE")
		time.Sleep(30 * time.Millisecond)
		w.keep = c.keep // (kept for reading the table; the verdict uses keep_cfg)
		w.keepCfg = vfM{"yaml": strings.ToLower(strings.Trim(c.yaml, "\"")), "env": strings.ToLower(c.env)}
		w.reset(fmt.Sprintf("keepwiring%d-yaml[%s]-env[%s]", ci, strings.Trim(c.yaml, "\""), c.env), true, udp, tcp)
		w.keepCfg = nil
		cli, err := net.ListenUDP("udp", &net.UDPAddr{IP: net.ParseIP(g.ip("10.0.5.5")), Port: 0})
		if err != nil {
			t.Fatalf("VF-INFRA %v", err)
		}
		cport := cli.LocalAddr().(*net.UDPAddr).Port
		for i, route := range []string{
			fmt.Sprintf("<sip:%s:%d;lr>, <sip:%s:5070;lr>, <sip:%s:5080;lr>", la, udp, g.ip("10.0.1.1"), g.ip("10.0.1.7")),
			fmt.Sprintf("<sip:%s:5070;lr>, \"D\" <sip:u@%s:5080;x=1;lr>;hp=2", g.ip("10.0.1.1"), g.ip("10.0.1.7")),
			fmt.Sprintf("<sip:%s:5070;lr>", g.ip("10.0.1.1"))} {
			raw := w.request(fmt.Sprintf("sip:bob@elsewhere%d.example", ci), route, "UDP", fmt.Sprintf("%s:5062", g.ip("10.0.2.1")), "", 3000+i)
			vfAllSinks.pollAll()
			cli.WriteToUDP(raw, &net.UDPAddr{IP: net.ParseIP(la), Port: udp})
			w.emit("keep-wiring", "p1.t1", g.ip("10.0.5.5"), cport, raw, vfWaitSinks(2*time.Second))
		}
		cli.Close()
		ncase++
	}
	fmt.Printf("VF cases=%d events=%d\n", ncase, tr.n)
}

// TestVfHostsWiring: the host tables of the YAML configuration as the alias of C13 ("a host equal to the listener
// address or an alias that resolves to it").  A name may be declared in the top-level table shared by all services, in
// the table of the service, or in both; the table of the service is the more specific one and decides (HostTable in
// ProxyOps.tla).  Services are started through loadConfigFromReader + createPreConfigHostResolver + startProxy; requests
// whose first Route entry names the alias arrive on the real UDP listener; the trace carries both tables, TLC
// computes what the alias resolves to and judges consumption / relayed Route set.
func TestVfHostsWiring(t *testing.T) {
	tr := vfOpenTrace(t, "VERIF_TRACE")
	defer tr.Close()
	g := &vfGamma{base: vfIPBase(), rnd: vfRand(14)}
	w := &vfWiring{t: t, tr: tr, g: g}
	la, la2, foreign := g.ip("10.0.0.1"), g.ip("10.0.0.2"), g.ip("10.0.9.9")
	vfAllSinks.get(t, g.ip("10.0.1.1"), 5070) // the next hop behind the alias entry
	vfAllSinks.get(t, g.ip("10.0.4.1"), 5060) // the backend
	type tab map[string]string
	type hc struct {
		name        string
		svc, global tab
	}
	cases := []hc{
		{"global-only", tab{}, tab{"sip-lb": la}},
		{"service-only", tab{"sip-lb": la}, tab{}},
		{"both-same", tab{"sip-lb": la}, tab{"sip-lb": la}},
		{"service-says-listener-global-says-foreign", tab{"sip-lb": la}, tab{"sip-lb": foreign}},
		{"service-says-foreign-global-says-listener", tab{"sip-lb": foreign}, tab{"sip-lb": la}},
		{"service-says-listener-global-says-other-service", tab{"sip-lb": la, "peer-lb": la2}, tab{"sip-lb": la2, "peer-lb": la}},
		{"other-names-around", tab{"a.example": foreign, "sip-lb": la, "z.example": foreign}, tab{"b.example": la, "sip-lb": foreign, "y.example": la}},
	}
	ncase := 0
	for ci, c := range cases {
		udp, tcp := vfFreePort(t, la), vfFreePort(t, la)
		for _, ip := range []string{foreign, la2} {
			vfAllSinks.get(t, ip, udp) // where a request goes whose first Route entry is NOT the listener
		}
		var y strings.Builder
		fmt.Fprintf(&y, "proxies:\n- name: hosts%d.example.com\n  listens:\n  - address: %s\n    udp-port: %d\n    tcp-port: %d\n    backends:\n    - udp://%s:5060\n", ci, la, udp, tcp, g.ip("10.0.4.1"))
		wr := func(ind string, tb tab) {
			var ks []string
			for k := range tb {
				ks = append(ks, k)
			}
			sort.Strings(ks)
			if len(ks) == 0 {
				return
			}
			fmt.Fprintf(&y, "%shosts:\n", ind)
			for _, k := range ks {
				fmt.Fprintf(&y, "%s- name: %s\n%s  ip: %s\n", ind, k, ind, tb[k])
			}
		}
		wr("  ", c.svc)
		wr("", c.global)
		cfg, err := loadConfigFromReader(strings.NewReader(y.String()))
		if err != nil {
			t.Fatalf("VF-INFRA yaml: %v\n%s", err, y.String())
		}
		for _, pc := range cfg.Proxies {
			if err := startProxy(pc, createPreConfigRoute(pc), createPreConfigHostResolver(cfg.Hosts, pc)); err != nil {
				t.Fatalf("VF-INFRA startProxy: %v", err)
			}
		}
		time.Sleep(30 * time.Millisecond)
		toM := func(tb tab) vfM {
			m := vfM{"-": "-"} // never empty: an empty JSON object has no TLA+ function reading
			for k, v := range tb {
				m[k] = v
			}
			return m
		}
		w.keep = false
		w.hosts = vfM{"svc": toM(c.svc), "global": toM(c.global)}
		w.reset(fmt.Sprintf("hostswiring%d-%s", ci, c.name), true, udp, tcp)
		cli, err := net.ListenUDP("udp", &net.UDPAddr{IP: net.ParseIP(g.ip("10.0.5.5")), Port: 0})
		if err != nil {
			t.Fatalf("VF-INFRA %v", err)
		}
		cport := cli.LocalAddr().(*net.UDPAddr).Port
		aliases := []string{"sip-lb"}
		if _, ok := c.svc["peer-lb"]; ok {
			aliases = append(aliases, "peer-lb")
		}
		n := 0
		for _, al := range aliases {
			for _, route := range []string{
				fmt.Sprintf("<sip:%s:%d;lr>, <sip:%s:5070;lr>", al, udp, g.ip("10.0.1.1")),
				fmt.Sprintf("<sip:%s:%d;lr>, <sip:%s:5070;lr>, <sip:%s:5080;lr>", al, udp, g.ip("10.0.1.1"), g.ip("10.0.1.7")),
				fmt.Sprintf("\"LB\" <sip:x@%s:%d;lr>", al, udp)} {
				n++
				raw := w.request(fmt.Sprintf("sip:bob@elsewhere%d.example", ci), route, "UDP", fmt.Sprintf("%s:5062", g.ip("10.0.2.1")), "", 4000+n)
				vfAllSinks.pollAll()
				cli.WriteToUDP(raw, &net.UDPAddr{IP: net.ParseIP(la), Port: udp})
				w.emit("hosts-wiring alias="+al+" "+c.name, "p1.t1", g.ip("10.0.5.5"), cport, raw, vfWaitSinks(1500*time.Millisecond))
			}
		}
		cli.Close()
		ncase++
	}
	fmt.Printf("VF cases=%d events=%d\n", ncase, tr.n)
}

// TestVfTimeoutWiring: the dialog timeout as the configuration gives it (C15: "the configured dialog timeout").  A
// service is started from YAML through loadConfigFromReader + startProxy with the dialogTimeout key present / absent /
// zero and the DEFAULT_DIALOG_TIMEOUT environment variable unset / numeric / not numeric; a dialog is established through
// one of two real UDP backends (the answer is sent from the backend's own socket), unrelated requests advance the
// rotation, in-dialog requests probe the pin inside and beyond the lifetime.  The trace carries the configuration,
// TLC computes the effective timeout (EffTimeout in PinsOps.tla) and judges every probe with the interval-sound rules
// of Trace_Sticky (Focus C15).
func TestVfTimeoutWiring(t *testing.T) {
	tr := vfOpenTrace(t, "VERIF_TRACE")
	defer tr.Close()
	g := &vfGamma{base: vfIPBase(), rnd: vfRand(15)}
	la := g.ip("10.0.0.1")
	// three backends: with one unrelated request in between, a load-balanced in-dialog request never lands on the holder by rotation
	backs := []string{g.ip("10.0.4.1") + ":5060", g.ip("10.0.4.2") + ":5060", g.ip("10.0.4.3") + ":5060"}
	bsink := map[string]*vfSink{backs[0]: vfAllSinks.get(t, g.ip("10.0.4.1"), 5060), backs[1]: vfAllSinks.get(t, g.ip("10.0.4.2"), 5060), backs[2]: vfAllSinks.get(t, g.ip("10.0.4.3"), 5060)}
	vfAllSinks.get(t, g.ip("10.0.5.5"), 5062) // where relayed responses go
	type tc struct {
		name   string
		yaml   string // the dialogTimeout line's value, "" = key absent
		env    string // "" = unset
		probes []int  // ms after the answer
		prev   string // dialogTimeout of ANOTHER service configured ahead of this one in the same file ("" = no other service)
	}
	cases := []tc{
		{"yaml-1", "1", "", []int{300, 1250}, ""},
		{"env-1", "", "1", []int{300, 1250}, ""},
		{"yaml-0-env-1", "0", "1", []int{300, 1250}, ""},
		{"yaml-1-env-50", "1", "50", []int{300, 1250}, ""},
		{"yaml-2-env-1", "2", "1", []int{1300, 2250}, ""},
		{"nothing-configured", "", "", []int{300, 1300}, ""},
		{"env-not-numeric", "", "1s", []int{300, 1300}, ""},
		{"yaml-negative-env-2", "-1", "2", []int{1300, 2250}, ""},
		// the timeout of a service is its own: another service configured ahead of it in the same file does not lend its value
		{"second-service-unset-first-has-1", "", "", []int{300, 1300}, "1"},
		{"second-service-env-2-first-has-1", "", "2", []int{1300, 2250}, "1"},
		{"second-service-yaml-1-first-has-30", "1", "", []int{300, 1250}, "30"},
	}
	if vfEnvInt("VERIF_NTW", len(cases)) < len(cases) {
		cases = cases[:vfEnvInt("VERIF_NTW", len(cases))]
	}
	pooled := false
	var pmu sync.Mutex
	vfSetHook(func(ev string, kv ...interface{}) {
		if ev == "rr.next" {
			pmu.Lock()
			pooled = true
			pmu.Unlock()
		}
	})
	ncase := 0
	for ci, c := range cases {
		udp, tcp := vfFreePort(t, la), vfFreePort(t, la)
		name := fmt.Sprintf("tw%d.example.com", ci)
		y := "proxies:\n"
		if c.prev != "" {
			y += fmt.Sprintf("- name: other%d.example.com\n  dialogTimeout: %s\n  listens:\n  - address: %s\n    udp-port: %d\n    tcp-port: %d\n", ci, c.prev, la, vfFreePort(t, la), vfFreePort(t, la))
		}
		y += fmt.Sprintf("- name: %s\n", name)
		if c.yaml != "" {
			y += "  dialogTimeout: " + c.yaml + "\n"
		}
		y += fmt.Sprintf("  listens:\n  - address: %s\n    udp-port: %d\n    tcp-port: %d\n    backends:\n    - udp://%s\n    - udp://%s\n    - udp://%s\n", la, udp, tcp, backs[0], backs[1], backs[2])
		if c.env != "" {
			os.Setenv("DEFAULT_DIALOG_TIMEOUT", c.env)
		} else {
			os.Unsetenv("DEFAULT_DIALOG_TIMEOUT")
		}
		cfg, err := loadConfigFromReader(strings.NewReader(y))
		if err != nil {
			t.Fatalf("VF-INFRA yaml: %v\n%s", err, y)
		}
		for _, pc := range cfg.Proxies {
			if err := startProxy(pc, createPreConfigRoute(pc), createPreConfigHostResolver(cfg.Hosts, pc)); err != nil {
				t.Fatalf("VF-INFRA startProxy: %v", err)
			}
		}
		os.Unsetenv("DEFAULT_DIALOG_TIMEOUT")
		time.Sleep(50 * time.Millisecond)
		id := fmt.Sprintf("timeoutwiring%d-%s", ci, c.name)
		yv := -1000000 // key absent
		if c.yaml != "" {
			fmt.Sscanf(c.yaml, "%d", &yv)
		}
		ev, evalid := 0, false
		if n, err := strconv.Atoi(c.env); err == nil {
			ev, evalid = n, true
		}
		tr.Emit(vfM{"ev": "reset", "case": id, "cfg": vfM{"backs": backs, "timeout_cfg": vfM{"yaml_present": c.yaml != "", "yaml": yv, "env_set": c.env != "", "env_numeric": evalid, "env": ev}}})
		start := time.Now()
		us := func() int { return vfUs(time.Since(start)) }
		cli, err := net.ListenUDP("udp", &net.UDPAddr{IP: net.ParseIP(g.ip("10.0.5.5")), Port: 0})
		if err != nil {
			t.Fatalf("VF-INFRA %v", err)
		}
		cport := cli.LocalAddr().(*net.UDPAddr).Port
		nbr := 0
		mkreq := func(method, cid, ft, totag string) []byte {
			nbr++
			hs := []vfHdr{{"Via", fmt.Sprintf("SIP/2.0/UDP %s:5062;branch=z9hG4bKtw%d-%d", g.ip("10.0.5.5"), ci, nbr)}, {"Max-Forwards", "70"},
				{"From", "<sip:a@a.example>;tag=" + ft}, {"To", "<sip:service@" + name + ">" + totag}, {"Call-ID", cid}, {"CSeq", fmt.Sprintf("%d %s", nbr, method)}, {"Content-Length", "0"}}
			return vfRender(method+" sip:service@"+name+" SIP/2.0", hs, nil)
		}
		step := func(cls string, srcIP string, srcPort int, raw []byte, send func()) []vfRecv {
			vfAllSinks.pollAll()
			pmu.Lock()
			pooled = false
			pmu.Unlock()
			t0 := us() - 1
			send()
			got := vfWaitSinks(700 * time.Millisecond)
			t1 := us() + 1
			in := vfAlpha(raw)
			outs := []vfM{}
			for _, rv := range got {
				a := fmt.Sprintf("%s:%d", rv.ip, rv.port)
				if _, ok := bsink[a]; ok {
					outs = append(outs, vfM{"kind": "backend", "addr": a, "ip": rv.ip, "port": rv.port, "proto": rv.proto})
				} else if in.Kind == "req" {
					outs = append(outs, vfM{"kind": "sink", "addr": a, "ip": rv.ip, "port": rv.port, "proto": rv.proto})
				}
			}
			pmu.Lock()
			pl := pooled
			pmu.Unlock()
			tr.Emit(vfM{"ev": "step", "case": id, "cls": cls, "t0": t0, "t1": t1, "src": vfM{"ip": srcIP, "port": srcPort}, "inmsg": in, "outs": outs,
				"pooled": pl, "expires": 0, "substcls": "", "mine": in.Kind == "req", "npool": 3, "panic": "", "stuck": false})
			return got
		}
		fromCli := func(raw []byte) func() {
			return func() { cli.WriteToUDP(raw, &net.UDPAddr{IP: net.ParseIP(la), Port: udp}) }
		}
		cid, ft := fmt.Sprintf("tw-%d@%s", ci, g.base), fmt.Sprintf("f%d", ci)
		inv := mkreq("INVITE", cid, ft, "")
		got := step("timeout-wiring initial INVITE", g.ip("10.0.5.5"), cport, inv, fromCli(inv))
		holder := ""
		var vias []string
		for _, rv := range got {
			a := fmt.Sprintf("%s:%d", rv.ip, rv.port)
			if _, ok := bsink[a]; ok {
				holder, vias = a, vfViaLines(rv.raw)
			}
		}
		if holder == "" {
			cli.Close()
			ncase++
			continue // nothing delivered: the step above carries the verdict
		}
		var hs []vfHdr
		for _, v := range vias {
			hs = append(hs, vfHdr{"Via", v})
		}
		totag := fmt.Sprintf(";tag=b%d", ci)
		hs = append(hs, vfHdr{"From", "<sip:a@a.example>;tag=" + ft}, vfHdr{"To", "<sip:service@" + name + ">" + totag}, vfHdr{"Call-ID", cid}, vfHdr{"CSeq", "1 INVITE"}, vfHdr{"Content-Length", "0"})
		ans := vfRender("SIP/2.0 200 OK", hs, nil)
		hi := strings.LastIndexByte(holder, ':')
		answered := time.Now()
		step("timeout-wiring answered from the backend's socket", holder[:hi], 5060, ans, func() {
			syscall.Sendto(bsink[holder].ufd, ans, 0, vfSockaddr(la, udp))
		})
		for pi, at := range c.probes {
			o := mkreq("OPTIONS", fmt.Sprintf("tw-%d-u%d@%s", ci, pi, g.base), fmt.Sprintf("u%d", pi), "")
			step("timeout-wiring unrelated", g.ip("10.0.5.5"), cport, o, fromCli(o))
			if d := time.Duration(at)*time.Millisecond - time.Since(answered); d > 0 {
				time.Sleep(d)
			}
			p := mkreq([]string{"INFO", "UPDATE"}[pi%2], cid, ft, totag)
			step(fmt.Sprintf("timeout-wiring in-dialog probe %d ms after the answer [%s]", at, c.name), g.ip("10.0.5.5"), cport, p, fromCli(p))
		}
		cli.Close()
		ncase++
	}
	fmt.Printf("VF cases=%d events=%d\n", ncase, tr.n)
}

// TestVfRouteWiring: the static routes of the YAML configuration (C03 clause 2, C18's precedence) through
// loadConfigFromReader + createPreConfigRoute + startProxy: overlapping wildcard destinations in several configuration
// orders (alphabetical and not), an exact destination among them, several dests per entry; requests without Route
// whose To host matches one, two or none of them arrive on the real UDP listener.  The trace carries the routes in
// CONFIGURATION order; TLC (StaticOps through JudgeC03) says where each request must go.
func TestVfRouteWiring(t *testing.T) {
	tr := vfOpenTrace(t, "VERIF_TRACE")
	defer tr.Close()
	g := &vfGamma{base: vfIPBase(), rnd: vfRand(16)}
	w := &vfWiring{t: t, tr: tr, g: g}
	la := g.ip("10.0.0.1")
	hops := []string{g.ip("10.0.1.4") + ":6001", g.ip("10.0.1.5") + ":6002", g.ip("10.0.1.6") + ":6003", g.ip("10.0.1.1") + ":5070"}
	for i, h := range hops {
		var p int
		fmt.Sscanf(h[strings.LastIndexByte(h, ':')+1:], "%d", &p)
		vfAllSinks.get(t, g.ip([]string{"10.0.1.4", "10.0.1.5", "10.0.1.6", "10.0.1.1"}[i]), p)
	}
	type ent struct {
		dests []string
		hop   int
	}
	tables := [][]ent{
		{{[]string{"*.example.com"}, 0}, {[]string{"*.com"}, 1}, {[]string{"a.example.com"}, 2}},
		{{[]string{"*.com"}, 1}, {[]string{"*.example.com"}, 0}, {[]string{"a.example.com"}, 2}},
		{{[]string{"a.example.com"}, 2}, {[]string{"*.example.com", "*.com"}, 0}, {[]string{"*"}, 3}},
		{{[]string{"*"}, 3}, {[]string{"*.com", "*.example.com"}, 1}},
		{{[]string{"z*.example.com"}, 1}, {[]string{"*.example.com"}, 0}, {[]string{"b*.example.com"}, 2}},
	}
	tohosts := []string{"x.example.com", "a.example.com", "y.com", "zeta.example.com", "beta.example.com", "z.org", "example.com"}
	ncase := 0
	for ci, tb := range tables {
		udp, tcp := vfFreePort(t, la), vfFreePort(t, la)
		var y strings.Builder
		fmt.Fprintf(&y, "proxies:\n- name: rw%d.example.net\n  listens:\n  - address: %s\n    udp-port: %d\n    tcp-port: %d\n  route:\n", ci, la, udp, tcp)
		w.static = nil
		for _, e := range tb {
			fmt.Fprintf(&y, "  - dests:\n")
			for _, d := range e.dests {
				fmt.Fprintf(&y, "    - \"%s\"\n", d)
				hp := hops[e.hop]
				i := strings.LastIndexByte(hp, ':')
				var p int
				fmt.Sscanf(hp[i+1:], "%d", &p)
				w.static = append(w.static, vfM{"pat": vfChars(d), "proto": "udp", "nhost": hp[:i], "nport": p})
			}
			fmt.Fprintf(&y, "    protocol: udp\n    nexthop: %s\n", hops[e.hop])
		}
		cfg, err := loadConfigFromReader(strings.NewReader(y.String()))
		if err != nil {
			t.Fatalf("VF-INFRA yaml: %v\n%s", err, y.String())
		}
		for _, pc := range cfg.Proxies {
			if err := startProxy(pc, createPreConfigRoute(pc), createPreConfigHostResolver(cfg.Hosts, pc)); err != nil {
				t.Fatalf("VF-INFRA startProxy: %v", err)
			}
		}
		time.Sleep(30 * time.Millisecond)
		w.keep = false
		w.reset(fmt.Sprintf("routewiring%d", ci), true, udp, tcp)
		cli, err := net.ListenUDP("udp", &net.UDPAddr{IP: net.ParseIP(g.ip("10.0.5.5")), Port: 0})
		if err != nil {
			t.Fatalf("VF-INFRA %v", err)
		}
		cport := cli.LocalAddr().(*net.UDPAddr).Port
		for i, th := range tohosts {
			hs := []vfHdr{{"Via", fmt.Sprintf("SIP/2.0/UDP %s:5062;branch=z9hG4bKrw%d-%d", g.ip("10.0.2.1"), ci, i)}, {"Max-Forwards", "70"}, {"From", "<sip:a@a.example>;tag=f"},
				{"To", "<sip:b@" + th + ">"}, {"Call-ID", fmt.Sprintf("rw-%d-%d", ci, i)}, {"CSeq", "1 OPTIONS"}, {"Content-Length", "0"}}
			raw := vfRender("OPTIONS sip:bob@elsewhere.example SIP/2.0", hs, nil)
			vfAllSinks.pollAll()
			cli.WriteToUDP(raw, &net.UDPAddr{IP: net.ParseIP(la), Port: udp})
			w.emit(fmt.Sprintf("route-wiring table=%d to=%s", ci, th), "p1.t1", g.ip("10.0.5.5"), cport, raw, vfWaitSinks(1200*time.Millisecond))
		}
		cli.Close()
		ncase++
	}
	w.static = nil
	fmt.Printf("VF cases=%d events=%d\n", ncase, tr.n)
}

// TestVfStickyWire: C04 through the REAL UDP listener of a service started from YAML (receive goroutine, parser
// goroutine, message loop).  A dialog is established through one of three real UDP backends; the backend's answer - sent
// from its own socket - is followed back-to-back by datagrams of another user agent; then in-dialog requests of several
// methods, from both parties' orientation, interleaved with unrelated requests, must all reach the answering backend.
// Judged by Trace_Sticky (Focus C04) like the in-package histories.
func TestVfStickyWire(t *testing.T) {
	tr := vfOpenTrace(t, "VERIF_TRACE")
	defer tr.Close()
	g := &vfGamma{base: vfIPBase(), rnd: vfRand(18)}
	la := g.ip("10.0.0.1")
	backs := []string{g.ip("10.0.4.1") + ":5060", g.ip("10.0.4.2") + ":5060", g.ip("10.0.4.3") + ":5060"}
	bsink := map[string]*vfSink{backs[0]: vfAllSinks.get(t, g.ip("10.0.4.1"), 5060), backs[1]: vfAllSinks.get(t, g.ip("10.0.4.2"), 5060), backs[2]: vfAllSinks.get(t, g.ip("10.0.4.3"), 5060)}
	vfAllSinks.get(t, g.ip("10.0.5.5"), 5062)
	vfAllSinks.get(t, g.ip("10.0.5.6"), 5062)
	var nnext int64
	vfSetHook(func(ev string, kv ...interface{}) {
		if ev == "rr.next" {
			atomic.AddInt64(&nnext, 1)
		}
	})
	udp, tcp := vfFreePort(t, la), vfFreePort(t, la)
	name := "sw.example.com"
	y := fmt.Sprintf("proxies:\n- name: %s\n  listens:\n  - address: %s\n    udp-port: %d\n    tcp-port: %d\n    backends:\n    - udp://%s\n    - udp://%s\n    - udp://%s\n", name, la, udp, tcp, backs[0], backs[1], backs[2])
	os.Unsetenv("DEFAULT_DIALOG_TIMEOUT")
	cfg, err := loadConfigFromReader(strings.NewReader(y))
	if err != nil {
		t.Fatalf("VF-INFRA yaml: %v", err)
	}
	for _, pc := range cfg.Proxies {
		if err := startProxy(pc, createPreConfigRoute(pc), createPreConfigHostResolver(cfg.Hosts, pc)); err != nil {
			t.Fatalf("VF-INFRA startProxy: %v", err)
		}
	}
	time.Sleep(50 * time.Millisecond)
	cli, err := net.ListenUDP("udp", &net.UDPAddr{IP: net.ParseIP(g.ip("10.0.5.5")), Port: 0})
	if err != nil {
		t.Fatalf("VF-INFRA %v", err)
	}
	defer cli.Close()
	noise, err := net.ListenUDP("udp", &net.UDPAddr{IP: net.ParseIP(g.ip("10.0.5.6")), Port: 0})
	if err != nil {
		t.Fatalf("VF-INFRA %v", err)
	}
	defer noise.Close()
	cport, nport := cli.LocalAddr().(*net.UDPAddr).Port, noise.LocalAddr().(*net.UDPAddr).Port
	to := &net.UDPAddr{IP: net.ParseIP(la), Port: udp}
	nd := vfEnvInt("VERIF_NDIALOG", 12)
	nbr := 0
	for di := 0; di < nd; di++ {
		id := fmt.Sprintf("stickywire%d", di)
		tr.Emit(vfM{"ev": "reset", "case": id, "cfg": vfM{"backs": backs, "timeout_cfg": vfM{"yaml_present": false, "yaml": 0, "env_set": false, "env_numeric": false, "env": 0}}})
		start := time.Now()
		us := func() int { return vfUs(time.Since(start)) }
		mkreq := func(src, method, cid, ft, fu, totag, tu string) []byte {
			nbr++
			hs := []vfHdr{{"Via", fmt.Sprintf("SIP/2.0/UDP %s:5062;branch=z9hG4bKsw%d", src, nbr)}, {"Max-Forwards", "70"},
				{"From", "<" + fu + ">;tag=" + ft}, {"To", "<" + tu + ">" + totag}, {"Call-ID", cid}, {"CSeq", fmt.Sprintf("%d %s", nbr, method)}, {"Content-Length", "0"}}
			return vfRender(method+" sip:service@"+name+" SIP/2.0", hs, nil)
		}
		// emit one step per message of a burst: what arrived at the backend sinks is attributed by Call-ID
		emit := func(cls string, t0, t1 int, msgs [][]byte, srcs []vfM, got []vfRecv, pooledAll bool) {
			for i, raw := range msgs {
				in := vfAlpha(raw)
				cid := ""
				for _, h := range in.Hdrs {
					if h.Cls == "callid" {
						cid = h.Val
					}
				}
				outs := []vfM{}
				if in.Kind == "req" {
					for _, rv := range got {
						a := fmt.Sprintf("%s:%d", rv.ip, rv.port)
						if _, ok := bsink[a]; !ok {
							continue
						}
						rc := ""
						for _, h := range vfAlpha(rv.raw).Hdrs {
							if h.Cls == "callid" {
								rc = h.Val
							}
						}
						if rc == cid && vfAlpha(rv.raw).Start == in.Start {
							outs = append(outs, vfM{"kind": "backend", "addr": a, "ip": rv.ip, "port": rv.port, "proto": rv.proto})
						}
					}
				}
				tr.Emit(vfM{"ev": "step", "case": id, "cls": cls, "t0": t0, "t1": t1, "src": srcs[i], "inmsg": in, "outs": outs,
					"pooled": pooledAll, "expires": 0, "substcls": "", "mine": in.Kind == "req", "npool": 3, "panic": "", "stuck": false})
			}
		}
		one := func(cls string, c *net.UDPConn, src vfM, raw []byte) []vfRecv {
			vfAllSinks.pollAll()
			atomic.StoreInt64(&nnext, 0)
			t0 := us() - 1
			c.WriteToUDP(raw, to)
			got := vfWaitSinks(700 * time.Millisecond)
			t1 := us() + 1
			emit(cls, t0, t1, [][]byte{raw}, []vfM{src}, got, atomic.LoadInt64(&nnext) > 0)
			return got
		}
		cliSrc, noiseSrc := vfM{"ip": g.ip("10.0.5.5"), "port": cport}, vfM{"ip": g.ip("10.0.5.6"), "port": nport}
		cid, ft, fu, tu := fmt.Sprintf("sw-%d@%s", di, g.base), fmt.Sprintf("f%d", di), fmt.Sprintf("sip:a%d@a.example", di), "sip:service@"+name
		got := one("sticky-wire initial INVITE", cli, cliSrc, mkreq(g.ip("10.0.5.5"), "INVITE", cid, ft, fu, "", tu))
		holder := ""
		var vias []string
		for _, rv := range got {
			a := fmt.Sprintf("%s:%d", rv.ip, rv.port)
			if _, ok := bsink[a]; ok {
				holder, vias = a, vfViaLines(rv.raw)
			}
		}
		if holder == "" {
			continue
		}
		var hs []vfHdr
		for _, v := range vias {
			hs = append(hs, vfHdr{"Via", v})
		}
		totag := fmt.Sprintf(";tag=b%d", di)
		hs = append(hs, vfHdr{"From", "<" + fu + ">;tag=" + ft}, vfHdr{"To", "<" + tu + ">" + totag}, vfHdr{"Call-ID", cid}, vfHdr{"CSeq", "1 INVITE"}, vfHdr{"Content-Length", "0"})
		ans := vfRender("SIP/2.0 200 OK", hs, nil)
		// the answer from the backend's socket, and right behind it datagrams of another user agent
		burst := [][]byte{ans}
		srcs := []vfM{{"ip": holder[:strings.LastIndexByte(holder, ':')], "port": 5060}}
		for k := 0; k < 3; k++ {
			burst = append(burst, mkreq(g.ip("10.0.5.6"), "OPTIONS", fmt.Sprintf("sw-%d-n%d@%s", di, k, g.base), fmt.Sprintf("n%d", k), "sip:n@n.example", "", tu))
			srcs = append(srcs, noiseSrc)
		}
		vfAllSinks.pollAll()
		atomic.StoreInt64(&nnext, 0)
		t0 := us() - 1
		syscall.Sendto(bsink[holder].ufd, ans, 0, vfSockaddr(la, udp))
		for _, b := range burst[1:] {
			noise.WriteToUDP(b, to)
		}
		var all []vfRecv
		for end := time.Now().Add(400 * time.Millisecond); time.Now().Before(end); time.Sleep(5 * time.Millisecond) {
			all = append(all, vfAllSinks.pollAll()...)
		}
		t1 := us() + 1
		emit("sticky-wire answer followed by another agent's datagrams", t0, t1, burst, srcs, all, atomic.LoadInt64(&nnext) >= 3)
		for pi, m := range []string{"ACK", "INFO", "UPDATE", "BYE"} {
			if pi%2 == 1 {
				one("sticky-wire unrelated", noise, noiseSrc, mkreq(g.ip("10.0.5.6"), "OPTIONS", fmt.Sprintf("sw-%d-u%d@%s", di, pi, g.base), fmt.Sprintf("u%d", pi), "sip:n@n.example", "", tu))
			}
			if pi == 2 { // the other party's orientation: From / To swapped
				one("sticky-wire in-dialog "+m+" (swapped)", cli, cliSrc, mkreq(g.ip("10.0.5.5"), m, cid, "b"+fmt.Sprint(di), tu, ";tag="+ft, fu))
			} else {
				one("sticky-wire in-dialog "+m, cli, cliSrc, mkreq(g.ip("10.0.5.5"), m, cid, ft, fu, totag, tu))
			}
		}
	}
	fmt.Printf("VF cases=%d events=%d\n", nd, tr.n)
}
