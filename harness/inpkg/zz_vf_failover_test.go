//go:build verif

package main

// Driver for C20: every fault pattern of MC_Failover on the real
// FailOverClientTransport over TCPClientTransport and on the real TCPBackend,
// with scripted net.Conn doubles planted in the conn fields (healthy / failing
// on write / failing once) and real loopback listeners scripted to accept,
// refuse (closed port) or accept-then-reset (SO_LINGER 0).

import (
	"encoding/json"
	"errors"
	"fmt"
	"net"
	"sync"
	"syscall"
	"testing"
	"time"
)

type vfConnDouble struct {
	mu     sync.Mutex
	fail   bool
	part   int // a failing write first accepts this many bytes (0: none)
	writes int
	data   []byte
	closed bool
	raddr  net.Addr
}

func (c *vfConnDouble) Read(b []byte) (int, error) { select {} }
func (c *vfConnDouble) Write(b []byte) (int, error) {
	c.mu.Lock()
	defer c.mu.Unlock()
	c.writes++
	if c.fail || c.closed {
		if c.part > 0 && !c.closed {
			n := c.part
			if n >= len(b) {
				n = len(b) - 1
			}
			if n > 0 {
				c.data = append(c.data, b[:n]...)
				return n, errors.New("scripted write failure after a partial write")
			}
		}
		return 0, errors.New("scripted write failure")
	}
	c.data = append(c.data, b...)
	return len(b), nil
}
func (c *vfConnDouble) Close() error { c.mu.Lock(); c.closed = true; c.mu.Unlock(); return nil }
func (c *vfConnDouble) LocalAddr() net.Addr {
	return &net.TCPAddr{IP: net.ParseIP("127.0.0.1"), Port: 1}
}
func (c *vfConnDouble) RemoteAddr() net.Addr               { return c.raddr }
func (c *vfConnDouble) SetDeadline(t time.Time) error      { return nil }
func (c *vfConnDouble) SetReadDeadline(t time.Time) error  { return nil }
func (c *vfConnDouble) SetWriteDeadline(t time.Time) error { return nil }

// a listener that accepts and immediately resets every connection
func vfResetListener(t testing.TB, ip string) (int, func()) {
	fd, err := syscall.Socket(syscall.AF_INET, syscall.SOCK_STREAM|syscall.SOCK_CLOEXEC, 0)
	if err != nil {
		t.Fatalf("VF-INFRA %v", err)
	}
	if err := syscall.Bind(fd, vfSockaddr(ip, 0)); err != nil {
		t.Fatalf("VF-INFRA %v", err)
	}
	syscall.Listen(fd, 64)
	sa, _ := syscall.Getsockname(fd)
	_, port := vfSaStr(sa)
	go func() {
		for {
			c, _, err := syscall.Accept(fd)
			if err != nil {
				return
			}
			syscall.SetsockoptLinger(c, syscall.SOL_SOCKET, syscall.SO_LINGER, &syscall.Linger{Onoff: 1, Linger: 0})
			syscall.Close(c)
		}
	}()
	return port, func() { syscall.Close(fd) }
}

type vfFoPattern struct {
	Prim string `json:"prim"`
	Path string `json:"path"`
	Msgs int    `json:"msgs"`
	Part bool   `json:"part"`
}

func TestVfFailover(t *testing.T) {
	tr := vfOpenTrace(t, "VERIF_TRACE")
	defer tr.Close()
	g := &vfGamma{base: vfIPBase(), rnd: vfRand(20)}
	ip := g.ip("10.0.6.1")
	seen := map[string]bool{}
	var pats []vfFoPattern
	vfReadBehaviours(t, vfEnv("VERIF_IN", ""), func(raw []byte) {
		if seen[string(raw)] {
			return
		}
		seen[string(raw)] = true
		var p vfFoPattern
		if err := json.Unmarshal(raw, &p); err != nil {
			t.Fatalf("bad pattern: %v", err)
		}
		pats = append(pats, p)
	})
	ncase := 0
	reps := vfEnvInt("VERIF_REPS", 1)
	for rep := 0; rep < reps; rep++ {
		for _, p := range pats {
			for _, kind := range []string{"client", "backend"} {
				if kind == "backend" && p.Prim != "none" {
					continue
				}
				id := fmt.Sprintf("%s-%s-%s-%d-part%v.%d", kind, p.Prim, p.Path, p.Msgs, p.Part, rep)
				part := 0
				if p.Part {
					part = []int{1, 40, 57, 100000}[(ncase+rep)%4]
				}
				// the destination
				port := 0
				var closer func()
				var sink *vfSink
				switch p.Path {
				case "fresh", "stale":
					// a port found free may be taken by an ephemeral socket of the code under test before the sink binds it: try again
					var err error
					for try := 0; try < 50; try++ {
						port = vfFreeTCPPort(t, ip)
						if sink, err = vfNewSink(ip, port); err == nil {
							break
						}
					}
					if err != nil {
						t.Fatalf("VF-INFRA %v", err)
					}
					closer = sink.close
				case "refuse", "absent":
					port = vfFreeTCPPort(t, ip) // nobody listens there
				case "reset":
					port, closer = vfResetListener(t, ip)
				}
				raddr := &net.TCPAddr{IP: net.ParseIP(ip), Port: port}
				var primD, staleD *vfConnDouble
				if p.Path == "stale" {
					staleD = &vfConnDouble{fail: true, part: part, raddr: raddr}
				}
				var send func(m *Message) error
				connState := "none"
				if staleD != nil {
					connState = "stale"
				}
				dest := map[string]string{"absent": "absent", "fresh": "accept", "stale": "accept", "refuse": "refuse", "reset": "reset"}[p.Path]
				if kind == "client" {
					var prim ClientTransport
					if p.Prim != "none" {
						primD = &vfConnDouble{fail: p.Prim == "failing", part: part, raddr: &net.TCPAddr{IP: net.ParseIP(g.ip("10.0.5.5")), Port: 24001}}
						pt, _ := NewTCPClientTransportWithConn(primD)
						prim = pt
					}
					var sec ClientTransport
					if p.Path != "absent" {
						st, _ := NewTCPClientTransport(ip, port, g.ip("10.0.0.1"), nil)
						if staleD != nil {
							st.conn = staleD
						}
						sec = st
					}
					fo := NewFailOverClientTransport(prim, sec)
					send = fo.Send
				} else {
					if p.Path == "absent" {
						continue // a TCP backend always has a destination
					}
					be, _ := NewTCPBackend(g.ip("10.0.0.1")+":0", fmt.Sprintf("%s:%d", ip, port), func(net.Conn) {})
					if staleD != nil {
						be.conn = staleD
					}
					send = be.Send
				}
				tr.Emit(vfM{"ev": "reset", "case": id, "prim": p.Prim, "conn": connState, "dest": dest})
				oldConns := map[int]bool{}
				for k := 1; k <= p.Msgs; k++ {
					msg, _ := NewRequest("OPTIONS", "sip:x@y.example", "SIP/2.0")
					msg.AddHeader("Call-ID", fmt.Sprintf("%s-m%d", id, k))
					msg.AddHeader("Content-Length", "0")
					want, _ := msg.Bytes()
					primBefore, staleBefore := 0, 0
					if primD != nil {
						primBefore = primD.writes
					}
					if staleD != nil {
						staleBefore = staleD.writes
					}
					var err error
					t0 := time.Now()
					pm := vfCatch(func() { err = send(msg) })
					el := time.Since(t0)
					on := []string{}
					if primD != nil && countMsg(primD.data, want) > 0 {
						for i := 0; i < countMsg(primD.data, want); i++ {
							on = append(on, "prim")
						}
					}
					if staleD != nil {
						for i := 0; i < countMsg(staleD.data, want); i++ {
							on = append(on, "old")
						}
					}
					dialed := 0
					if sink != nil {
						time.Sleep(2 * time.Millisecond)
						for _, rv := range sink.poll() {
							if string(rv.raw) == string(want) {
								if oldConns[rv.conn] {
									on = append(on, "old")
								} else {
									on = append(on, "new")
								}
							}
						}
						for fd := range sink.conns {
							if !oldConns[fd] {
								dialed++
								oldConns[fd] = true
							}
						}
					}
					pw := 0
					if primD != nil {
						pw = primD.writes - primBefore
					}
					sw := 0
					if staleD != nil {
						sw = staleD.writes - staleBefore
					}
					tr.Emit(vfM{"ev": "send", "case": id, "cls": fmt.Sprintf("kind=%s prim=%s path=%s partial-write=%v k=%d", kind, p.Prim, p.Path, p.Part, k), "k": k, "ok": err == nil,
						"on": on, "dialed": dialed, "prim_writes": pw, "stale_writes": sw, "elapsed_ms": int(el / time.Millisecond), "panic": pm})
				}
				if closer != nil {
					closer()
				}
				ncase++
			}
		}
	}
	fmt.Printf("VF cases=%d events=%d\n", ncase, tr.n)
}

func countMsg(data, want []byte) int {
	n := 0
	for i := 0; i+len(want) <= len(data); {
		if string(data[i:i+len(want)]) == string(want) {
			n++
			i += len(want)
		} else {
			i++
		}
	}
	return n
}
