//go:build verif

package main

// Test bench for the proxy pipeline: real Proxy objects (with their real loop
// goroutines), a shared SelfLearnRoute, real RoundRobinBackend pools holding
// Backend doubles, and "sinks" - loopback UDP sockets and TCP listeners polled
// at system-call level so that what was (and what was not) sent by one loop
// iteration is observed deterministically behind the loop barrier hook.

import (
	"bufio"
	"bytes"
	"encoding/json"
	"fmt"
	"net"
	"os"
	"regexp"
	"strconv"
	"strings"
	"sync"
	"syscall"
	"testing"
	"time"
)

// ------------------------------------------------------------------ sinks

type vfRecv struct {
	proto   string // "udp" / "tcp"
	ip      string // sink address
	port    int
	srcIP   string
	srcPort int
	conn    int // accepted connection fd for tcp, 0 for udp
	raw     []byte
}

type vfSink struct {
	ip    string
	port  int
	ufd   int
	tfd   int
	conns map[int][]byte // accepted fd -> pending bytes
	csrc  map[int]string
}

func vfSockaddr(ip string, port int) *syscall.SockaddrInet4 {
	sa := &syscall.SockaddrInet4{Port: port}
	copy(sa.Addr[:], net.ParseIP(ip).To4())
	return sa
}

func vfNewSink(ip string, port int) (*vfSink, error) {
	s := &vfSink{ip: ip, port: port, conns: map[int][]byte{}, csrc: map[int]string{}}
	var err error
	s.ufd, err = syscall.Socket(syscall.AF_INET, syscall.SOCK_DGRAM|syscall.SOCK_NONBLOCK|syscall.SOCK_CLOEXEC, 0)
	if err != nil {
		return nil, err
	}
	syscall.SetsockoptInt(s.ufd, syscall.SOL_SOCKET, syscall.SO_RCVBUF, 4<<20)
	if err = syscall.Bind(s.ufd, vfSockaddr(ip, port)); err != nil {
		return nil, fmt.Errorf("bind udp %s:%d: %v", ip, port, err)
	}
	s.tfd, err = syscall.Socket(syscall.AF_INET, syscall.SOCK_STREAM|syscall.SOCK_NONBLOCK|syscall.SOCK_CLOEXEC, 0)
	if err != nil {
		return nil, err
	}
	syscall.SetsockoptInt(s.tfd, syscall.SOL_SOCKET, syscall.SO_REUSEADDR, 1)
	if err = syscall.Bind(s.tfd, vfSockaddr(ip, port)); err != nil {
		return nil, fmt.Errorf("bind tcp %s:%d: %v", ip, port, err)
	}
	if err = syscall.Listen(s.tfd, 256); err != nil {
		return nil, err
	}
	return s, nil
}

func (s *vfSink) close() {
	syscall.Close(s.ufd)
	syscall.Close(s.tfd)
	for fd := range s.conns {
		syscall.Close(fd)
	}
}

func vfSaStr(sa syscall.Sockaddr) (string, int) {
	if a, ok := sa.(*syscall.SockaddrInet4); ok {
		return net.IP(a.Addr[:]).String(), a.Port
	}
	return "?", 0
}

// frame: cut complete SIP messages (Content-Length delimited) off the front of a TCP byte stream
func vfFrame(buf []byte) (msgs [][]byte, rest []byte) {
	for {
		// skip keep-alive CRLFs
		for len(buf) >= 2 && buf[0] == '\r' && buf[1] == '\n' {
			buf = buf[2:]
		}
		i := bytes.Index(buf, []byte("\r\n\r\n"))
		if i < 0 {
			return msgs, buf
		}
		cl := 0
		for _, ln := range strings.Split(string(buf[:i]), "\r\n")[1:] {
			c := strings.IndexByte(ln, ':')
			if c > 0 && vfCanonName(strings.TrimSpace(ln[:c])) == "content-length" {
				cl, _ = strconv.Atoi(strings.TrimSpace(ln[c+1:]))
			}
		}
		end := i + 4 + cl
		if len(buf) < end {
			return msgs, buf
		}
		msgs = append(msgs, append([]byte(nil), buf[:end]...))
		buf = buf[end:]
	}
}

var vfPollBuf = make([]byte, 1<<17) // pollAll is serialised by vfSinks.mu

// poll returns everything that has arrived so far, without blocking.
func (s *vfSink) poll() []vfRecv {
	var out []vfRecv
	buf := vfPollBuf
	for {
		n, from, err := syscall.Recvfrom(s.ufd, buf, syscall.MSG_DONTWAIT)
		if err != nil || n < 0 {
			break
		}
		ip, port := vfSaStr(from)
		out = append(out, vfRecv{proto: "udp", ip: s.ip, port: s.port, srcIP: ip, srcPort: port, raw: append([]byte(nil), buf[:n]...)})
	}
	for {
		fd, sa, err := syscall.Accept4(s.tfd, syscall.SOCK_NONBLOCK|syscall.SOCK_CLOEXEC)
		if err != nil {
			break
		}
		ip, port := vfSaStr(sa)
		s.conns[fd] = nil
		s.csrc[fd] = fmt.Sprintf("%s:%d", ip, port)
	}
	for fd := range s.conns {
		eof := false
		for {
			n, _, err := syscall.Recvfrom(fd, buf, syscall.MSG_DONTWAIT)
			if err == nil && n == 0 {
				eof = true
				break
			}
			if err != nil || n < 0 {
				break
			}
			s.conns[fd] = append(s.conns[fd], buf[:n]...)
		}
		msgs, rest := vfFrame(s.conns[fd])
		s.conns[fd] = rest
		for _, m := range msgs {
			hp := strings.Split(s.csrc[fd], ":")
			p, _ := strconv.Atoi(hp[1])
			out = append(out, vfRecv{proto: "tcp", ip: s.ip, port: s.port, srcIP: hp[0], srcPort: p, conn: fd, raw: m})
		}
		if eof {
			syscall.Close(fd)
			delete(s.conns, fd)
			delete(s.csrc, fd)
		}
	}
	return out
}

// every test process uses its own 127.a.b.* range so that concurrently running checks never collide: the range is
// claimed by binding a lock socket in it (held for the life of the process); a taken range makes us try the next
var vfIPBaseOnce sync.Once
var vfIPBaseVal string
var vfIPBaseLock *net.UDPConn

func vfIPBase() string {
	vfIPBaseOnce.Do(func() {
		pid := os.Getpid()
		for i := 0; i < 400; i++ {
			k := pid + i*7919
			base := fmt.Sprintf("127.%d.%d.", 16+k%200, 1+(k/200)%250)
			c, err := net.ListenUDP("udp", &net.UDPAddr{IP: net.ParseIP(base + "254"), Port: 65000})
			if err == nil {
				vfIPBaseVal, vfIPBaseLock = base, c
				return
			}
		}
		panic("VF-INFRA no free 127.a.b.* range")
	})
	return vfIPBaseVal
}

type vfSinks struct {
	mu sync.Mutex
	m  map[string]*vfSink
}

var vfAllSinks = &vfSinks{m: map[string]*vfSink{}}

func (ss *vfSinks) get(t testing.TB, ip string, port int) *vfSink {
	ss.mu.Lock()
	defer ss.mu.Unlock()
	k := fmt.Sprintf("%s:%d", ip, port)
	if s, ok := ss.m[k]; ok {
		return s
	}
	s, err := vfNewSink(ip, port)
	if err != nil {
		t.Fatalf("VF-INFRA cannot create sink: %v", err)
	}
	ss.m[k] = s
	return s
}

func (ss *vfSinks) pollAll() []vfRecv {
	ss.mu.Lock()
	defer ss.mu.Unlock()
	var out []vfRecv
	for _, s := range ss.m {
		out = append(out, s.poll()...)
	}
	return out
}

// ------------------------------------------------------------------ bench

type vfTCfg struct {
	Proto string `json:"proto"` // "UDP" / "TCP"
	Port  int    `json:"port"`
	Real  bool   `json:"real"` // a real UDPServerTransport with a bound socket (never started)
}

type vfPCfg struct {
	Addr     string   `json:"addr"`
	Trans    []vfTCfg `json:"trans"`
	MustRR   bool     `json:"mustrr"`
	Recv     bool     `json:"recv"`
	Backends []string `json:"backends"` // addresses (ip:port) of Backend doubles, in registration order
}

type vfRouteCfg struct {
	Proto   string `json:"proto"`
	Dest    string `json:"dest"`
	NextHop string `json:"nexthop"`
}

type vfBenchCfg struct {
	Names   string            `json:"names"`
	Keep    bool              `json:"keep"`
	Hosts   map[string]string `json:"hosts"`
	Static  []vfRouteCfg      `json:"static"`
	Proxies []vfPCfg          `json:"proxies"`
	TimeoutMs int             `json:"timeout_ms"` // dialog timeout (0: 1200 s)
}

type vfOut struct {
	Kind    string // "backend" / "sink"
	Addr    string // backend address, or ip:port of the sink
	IP      string
	Port    int
	Proto   string
	SrcIP   string
	SrcPort int
	Conn    int
	Raw     []byte
}

type vfBench struct {
	t        testing.TB
	cfg      vfBenchCfg
	slr      *SelfLearnRoute
	pcr      *PreConfigRoute
	res      *PreConfigHostResolver
	proxies  []*Proxy
	items    []*ProxyItem
	trans    [][]ServerTransport
	pools    []*RoundRobinBackend
	backs    map[string]*vfBackend
	barrier  chan string
	mu       sync.Mutex
	outs     []vfOut
	names    []*regexp.Regexp
	closers  []func()
}

var vfBenchCur struct {
	mu sync.Mutex
	b  *vfBench
}

func vfBenchHook(ev string, kv ...interface{}) {
	if !strings.HasPrefix(ev, "loop.") || len(kv) == 0 {
		return
	}
	vfBenchCur.mu.Lock()
	b := vfBenchCur.b
	vfBenchCur.mu.Unlock()
	if b == nil {
		return
	}
	p, ok := kv[0].(*Proxy)
	if !ok {
		return
	}
	for _, q := range b.proxies {
		if q == p {
			b.barrier <- ev
			return
		}
	}
}

func vfNewBench(t testing.TB, cfg vfBenchCfg) *vfBench {
	b := &vfBench{t: t, cfg: cfg, backs: map[string]*vfBackend{}, barrier: make(chan string, 1024)}
	b.slr = NewSelfLearnRoute()
	b.pcr = NewPreConfigRoute()
	for _, r := range cfg.Static {
		if err := b.pcr.AddRouteItem(r.Proto, r.Dest, r.NextHop); err != nil {
			t.Fatalf("VF-INFRA bad static route %v: %v", r, err)
		}
	}
	b.res = NewPreConfigHostResolver()
	for n, ip := range cfg.Hosts {
		b.res.AddHostIP(n, ip)
	}
	vfBenchCur.mu.Lock()
	vfBenchCur.b = b
	vfBenchCur.mu.Unlock()
	vfSetHook(vfBenchHook)
	timeout := int64(1200)
	for _, pc := range cfg.Proxies {
		p := NewProxy(cfg.Names, timeout, pc.Addr, cfg.Keep, b.pcr, b.res, b.slr, pc.Recv, pc.MustRR)
		if cfg.TimeoutMs > 0 {
			p.dialogBasedBackends.timeout = time.Duration(cfg.TimeoutMs) * time.Millisecond
			p.dialogBasedBackends.nextCleanTime = time.Now().Add(p.dialogBasedBackends.timeout)
		}
		var sts []ServerTransport
		for _, tc := range pc.Trans {
			if tc.Real && tc.Proto == "UDP" {
				u, err := NewUDPServerTransport(pc.Addr, tc.Port, pc.Recv, b.slr)
				if err != nil {
					t.Fatalf("VF-INFRA %v", err)
				}
				conn, err := vfListenerSock(u.localAddr)
				if err != nil {
					t.Fatalf("VF-INFRA cannot bind listener socket: %v", err)
				}
				u.conn = conn
				sts = append(sts, u)
			} else if tc.Real && tc.Proto == "TCP" {
				// a real TCP listener (accept loop + one reader goroutine per connection), handing messages to this proxy
				port := tc.Port
				if port == 0 {
					port = vfFreeTCPPort(t, pc.Addr)
				}
				ts := NewTCPServerTransport(pc.Addr, port, pc.Recv, p, b.slr)
				if err := ts.Start(p); err != nil {
					t.Fatalf("VF-INFRA cannot start TCP listener: %v", err)
				}
				sts = append(sts, ts)
			} else {
				sts = append(sts, &vfST{proto: tc.Proto, addr: pc.Addr, port: tc.Port})
			}
		}
		item := &ProxyItem{transports: sts, dests: nil, defRoute: false, msgHandler: p}
		if len(pc.Backends) > 0 {
			rb := NewRoundRobinBackend()
			item.backend = rb
			b.pools = append(b.pools, rb)
		} else {
			b.pools = append(b.pools, nil)
		}
		p.AddItem(item)
		b.proxies = append(b.proxies, p)
		b.items = append(b.items, item)
		b.trans = append(b.trans, sts)
	}
	for i, pc := range cfg.Proxies {
		for _, a := range pc.Backends {
			b.addBackend(i, a)
		}
	}
	return b
}

func (b *vfBench) close() {
	for _, c := range b.closers {
		c()
	}
	b.dropClientConns()
	vfBenchCur.mu.Lock()
	if vfBenchCur.b == b {
		vfBenchCur.b = nil
	}
	vfBenchCur.mu.Unlock()
}

func (b *vfBench) dropClientConns() {
	for _, p := range b.proxies {
		p.clientTransMgr.Lock()
		for k, tr := range p.clientTransMgr.transports {
			for _, ct := range []ClientTransport{tr.primary, tr.secondary} {
				if tc, ok := ct.(*TCPClientTransport); ok && tc != nil && tc.conn != nil {
					tc.conn.Close()
					tc.conn = nil
				}
				if uc, ok := ct.(*UDPClientTransport); ok && uc != nil && uc.conn != nil {
					real := false
					for _, sts := range b.trans {
						for _, st := range sts {
							if u, ok := st.(*UDPServerTransport); ok && u.conn == uc.conn {
								real = true
							}
						}
					}
					if !real {
						uc.conn.Close()
						uc.conn = nil
					}
				}
			}
			delete(p.clientTransMgr.transports, k)
		}
		p.clientTransMgr.Unlock()
	}
}

// reset brings a bench back to its initial state (all loops are idle: nothing is in flight behind the barrier):
// nothing learnt, no pins, no cached client transports, rotation at its start.  Benches are cached per
// configuration because every Proxy owns a loop goroutine that never ends.
func (b *vfBench) reset(t testing.TB) {
	b.t = t
	b.slr.route = make(map[string]ServerTransport)
	for _, p := range b.proxies {
		p.dialogBasedBackends.backends = make(map[string]*ExpireBackend)
		p.dialogBasedBackends.nextCleanTime = time.Now().Add(p.dialogBasedBackends.timeout)
	}
	b.dropClientConns()
	for _, rb := range b.pools {
		if rb != nil {
			rb.Lock()
			rb.index = 0
			rb.Unlock()
		}
	}
	vfBenchCur.mu.Lock()
	vfBenchCur.b = b
	vfBenchCur.mu.Unlock()
	vfSetHook(vfBenchHook)
}

func vfFreeTCPPort(t testing.TB, ip string) int { return vfFreePort(t, ip) }

// vfClient is a TCP client connection handled at system-call level (blocking connect, non-blocking reads)
type vfClient struct {
	fd      int
	ip      string
	port    int
	pending []byte
}

func vfDial(t testing.TB, localIP, ip string, port int) *vfClient {
	fd, err := syscall.Socket(syscall.AF_INET, syscall.SOCK_STREAM|syscall.SOCK_CLOEXEC, 0)
	if err != nil {
		t.Fatalf("VF-INFRA socket: %v", err)
	}
	if err := syscall.Bind(fd, vfSockaddr(localIP, 0)); err != nil {
		t.Fatalf("VF-INFRA bind %s: %v", localIP, err)
	}
	if err := syscall.Connect(fd, vfSockaddr(ip, port)); err != nil {
		t.Fatalf("VF-INFRA connect %s:%d: %v", ip, port, err)
	}
	syscall.SetNonblock(fd, true)
	sa, _ := syscall.Getsockname(fd)
	lip, lport := vfSaStr(sa)
	return &vfClient{fd: fd, ip: lip, port: lport}
}

func (c *vfClient) write(b []byte) error {
	for len(b) > 0 {
		n, err := syscall.Write(c.fd, b)
		if err == syscall.EAGAIN {
			time.Sleep(time.Millisecond)
			continue
		}
		if err != nil {
			return err
		}
		b = b[n:]
	}
	return nil
}

// poll returns the complete messages that have arrived, and whether the peer closed the connection
func (c *vfClient) poll() (msgs [][]byte, closed bool) {
	buf := make([]byte, 1<<16)
	for {
		n, _, err := syscall.Recvfrom(c.fd, buf, syscall.MSG_DONTWAIT)
		if err == nil && n == 0 {
			closed = true
			break
		}
		if err != nil || n < 0 {
			if err != syscall.EAGAIN && err != syscall.EWOULDBLOCK && err != nil {
				closed = true
			}
			break
		}
		c.pending = append(c.pending, buf[:n]...)
	}
	msgs, c.pending = vfFrame(c.pending)
	return
}

func (c *vfClient) close() { syscall.Close(c.fd) }

// real listener sockets are shared by all benches of a process (one per address:port, never closed)
var vfLSocks = map[string]*net.UDPConn{}

func vfListenerSock(a *net.UDPAddr) (*net.UDPConn, error) {
	if c, ok := vfLSocks[a.String()]; ok {
		return c, nil
	}
	c, err := net.ListenUDP("udp", a)
	if err == nil {
		vfLSocks[a.String()] = c
	}
	return c, err
}

var vfBenchCache = map[string]*vfBench{}

// vfGetBench returns a bench for cfg in its initial state, reusing an earlier one of the same configuration
func vfGetBench(t testing.TB, cfg vfBenchCfg) *vfBench {
	k, _ := json.Marshal(cfg)
	if b, ok := vfBenchCache[string(k)]; ok {
		b.reset(t)
		return b
	}
	b := vfNewBench(t, cfg)
	vfBenchCache[string(k)] = b
	return b
}

func (b *vfBench) wait(what string) bool {
	select {
	case ev := <-b.barrier:
		if ev != what {
			b.t.Fatalf("VF-INFRA barrier %s while waiting for %s", ev, what)
		}
		return true
	case <-time.After(10 * time.Second):
		return false
	}
}

// addBackend registers a Backend double in proxy pi's pool through the real AddBackend -> event -> loop path
func (b *vfBench) addBackend(pi int, addr string) *vfBackend {
	d := &vfBackend{addr: addr, onSend: func(be *vfBackend, raw []byte) {
		ip, ps, _ := net.SplitHostPort(be.addr)
		port, _ := strconv.Atoi(ps)
		b.mu.Lock()
		b.outs = append(b.outs, vfOut{Kind: "backend", Addr: be.addr, IP: ip, Port: port, Proto: "backend", Raw: append([]byte(nil), raw...)})
		b.mu.Unlock()
	}}
	b.backs[addr] = d
	b.pools[pi].AddBackend(d)
	if !b.wait("loop.bev") {
		b.t.Fatalf("VF-INFRA backend event not processed")
	}
	return d
}

func (b *vfBench) removeBackend(pi int, addr string) {
	b.pools[pi].RemoveBackend(addr)
	if !b.wait("loop.bev") {
		b.t.Fatalf("VF-INFRA backend event not processed")
	}
}

// poolMembers: addresses registered in proxy pi's pool right now
func (b *vfBench) poolMembers(pi int) []string {
	r := []string{}
	if b.pools[pi] == nil {
		return r
	}
	b.pools[pi].Lock()
	for _, be := range b.pools[pi].backends {
		r = append(r, be.GetAddress())
	}
	b.pools[pi].Unlock()
	return r
}

type vfStepRes struct {
	ParseErr string
	Stuck    bool
	Outs     []vfOut
}

// inject hands raw to the proxy as if it had arrived on transport (pi, ti) from peer, lets the loop
// process it completely and returns everything the proxy sent meanwhile.
func (b *vfBench) inject(pi, ti int, peerIP string, peerPort int, raw []byte, tcpConn net.Conn) vfStepRes {
	var r vfStepRes
	// decoded as the UDP receive path does (reader sized to the datagram); TCP framing is C11's business
	msg, err := ParseMessage(bufio.NewReaderSize(bytes.NewBuffer(raw), len(raw)))
	if err != nil {
		r.ParseErr = err.Error()
		return r
	}
	// drain anything stale
	vfAllSinks.pollAll()
	b.mu.Lock()
	b.outs = nil
	b.mu.Unlock()
	st := b.trans[pi][ti]
	rm := NewRawMessage(peerIP, peerPort, st, b.cfg.Proxies[pi].Recv, msg)
	rm.TcpConn = tcpConn
	b.proxies[pi].HandleRawMessage(rm)
	if !b.wait("loop.msg") {
		r.Stuck = true
		return r
	}
	b.mu.Lock()
	r.Outs = append(r.Outs, b.outs...)
	b.outs = nil
	b.mu.Unlock()
	for _, rv := range vfAllSinks.pollAll() {
		r.Outs = append(r.Outs, vfOut{Kind: "sink", Addr: fmt.Sprintf("%s:%d", rv.ip, rv.port), IP: rv.ip, Port: rv.port,
			Proto: rv.proto, SrcIP: rv.srcIP, SrcPort: rv.srcPort, Conn: rv.conn, Raw: rv.raw})
	}
	return r
}

// learned: the shared self-learnt table as host -> "pi.ti"
func (b *vfBench) learned() map[string]string {
	r := map[string]string{}
	for h, st := range b.slr.route {
		r[h] = b.lidOf(st)
	}
	return r
}

func (b *vfBench) lidOf(st ServerTransport) string {
	for pi, sts := range b.trans {
		for ti, s := range sts {
			if s == st {
				return fmt.Sprintf("p%d.t%d", pi+1, ti+1)
			}
		}
	}
	return "p?.t?"
}
