//go:build verif

package main

// Driver for dialog identity (C16): every assignment of the model's alphabets
// (emitted by TLC) and random realistic identifiers, each rendered as request
// and response, in both orientations, with decorations added and removed, and
// pushed through the real parser and GetDialog.  The result strings are
// interned; Trace_Dialog.tla judges the partition they induce.

import (
	"bufio"
	"bytes"
	"encoding/json"
	"fmt"
	"strings"
	"testing"
)

type vfDlgAbs struct {
	Cid []int `json:"cid"`
	Ft  []int `json:"ft"`
	Fu  []int `json:"fu"`
	Tt  []int `json:"tt"`
	Tu  []int `json:"tu"`
}

type vfDlgConc struct {
	cid, ft, fu, tt, tu string // "" tag = absent
}

var vfDlgChars = map[int]string{0: "-", 1: "t", 2: "u", 3: "c", 4: "d"}
var vfDlgUris = map[string]string{
	"[10]":       "sip:h.example.com",
	"[11,10]":    "sip:u@h.example.com",
	"[11,10,12]": "sip:u@h.example.com:5070",
	"[13,10]":    "sip:v@h.example.com",
	"[14]":       "tel:+1234",
	"[15,0,16]":  "urn:service:sos-x",
}

func vfDlgTok(s []int) string {
	var sb strings.Builder
	for _, c := range s {
		sb.WriteString(vfDlgChars[c])
	}
	return sb.String()
}
func vfDlgUri(t testing.TB, s []int) string {
	b, _ := json.Marshal(s)
	u, ok := vfDlgUris[string(b)]
	if !ok {
		t.Fatalf("unknown model URI %s", b)
	}
	return u
}

// variant bits
const (
	vfDlgSwap = 1 << iota
	vfDlgResp
	vfDlgDecor
	vfDlgCompact
	vfDlgBare
	vfDlgNVar = 1 << iota
)

func vfDlgNameAddr(uri string, tag string, v int, side int, rnd func(int) int) (string, string) {
	cls := ""
	isSip := strings.HasPrefix(uri, "sip:") || strings.HasPrefix(uri, "sips:")
	bare := v&vfDlgBare != 0 && !strings.ContainsAny(uri, ";?,")
	decor := v&vfDlgDecor != 0
	var sb strings.Builder
	if bare {
		cls += "bare,"
		sb.WriteString(uri)
	} else {
		if decor {
			sb.WriteString([]string{"Alice ", "\"Bob B\" ", "\"C %41 x\" ", "Z "}[rnd(4)])
			cls += "display,"
		}
		sb.WriteString("<")
		sb.WriteString(uri)
		if decor && isSip {
			// uri-parameters, URI headers, both, or headers only
			up := []string{";transport=tcp", ";lr", ";user=phone;lr", ";x=%41", "", "", ";transport=tls", ";lr;transport=TLS"}[rnd(8)]
			sb.WriteString(up)
			if up == "" || rnd(2) == 0 {
				sb.WriteString([]string{"?subject=a&h=b", "?Subject=x"}[rnd(2)])
				cls += "urihdrs,"
			}
			if up != "" {
				cls += "uriparams,"
			}
		}
		sb.WriteString(">")
	}
	if decor && rnd(2) == 0 {
		sb.WriteString(";foo=bar")
		cls += "hparam-before,"
	}
	if tag != "" {
		sb.WriteString(";tag=")
		sb.WriteString(tag)
	}
	if decor && rnd(2) == 0 {
		// a valueless one, a token-valued one, or a quoted-string value (gen-value = token / host / quoted-string) - quotes behind the '>'
		sb.WriteString([]string{";baz", ";baz", ";x-info=\"front desk\"", ";q=\"a;b\";baz"}[rnd(4)])
		cls += "hparam-after,"
	}
	return sb.String(), cls
}

func vfDlgRender(c vfDlgConc, v int, rnd func(int) int) ([]byte, string) {
	fu, ft, tu, tt := c.fu, c.ft, c.tu, c.tt
	cls := ""
	if v&vfDlgSwap != 0 {
		fu, ft, tu, tt = tu, tt, fu, ft
		cls += "swapped,"
	}
	from, c1 := vfDlgNameAddr(fu, ft, v, 0, rnd)
	to, c2 := vfDlgNameAddr(tu, tt, v, 1, rnd)
	cls += c1 + c2
	fn, tn, cn := "From", "To", "Call-ID"
	if v&vfDlgCompact != 0 {
		// compact names, in either letter case; or the long names in odd case (header names are case-insensitive)
		switch rnd(4) {
		case 0:
			fn, tn, cn = "f", "t", "i"
		case 1:
			fn, tn, cn = "F", "T", "I"
		case 2:
			fn, tn, cn = "f", "T", "CALL-ID"
		default:
			fn, tn, cn = "FROM", "to", "call-id"
		}
		cls += "compact,"
	}
	var sb bytes.Buffer
	if v&vfDlgResp != 0 {
		sb.WriteString("SIP/2.0 200 OK\r\n")
		cls += "resp,"
	} else {
		sb.WriteString("BYE sip:svc@proxy.example.com SIP/2.0\r\n")
	}
	sb.WriteString("Via: SIP/2.0/UDP 10.0.0.9:5060;branch=z9hG4bKx\r\n")
	hs := []string{fn + ": " + from, tn + ": " + to, cn + ": " + c.cid}
	// header order is irrelevant to the identity
	o := rnd(3)
	for i := 0; i < 3; i++ {
		sb.WriteString(hs[(i+o)%3])
		sb.WriteString("\r\n")
	}
	sb.WriteString("CSeq: 2 BYE\r\nContent-Length: 0\r\n\r\n")
	return sb.Bytes(), cls
}

type vfDlgRun struct {
	tr     *vfTrace
	intern map[string]string
}

func (r *vfDlgRun) id(s string) string {
	if v, ok := r.intern[s]; ok {
		return v
	}
	v := fmt.Sprintf("d%d", len(r.intern))
	r.intern[s] = v
	return v
}

func (r *vfDlgRun) one(caseID string, abs vfM, c vfDlgConc, v int, rnd func(int) int) {
	raw, cls := vfDlgRender(c, v, rnd)
	code := "ERR"
	pm := vfCatch(func() {
		msg, err := ParseMessage(bufio.NewReader(bytes.NewReader(raw)))
		if err != nil {
			code = "PARSE-ERR"
			return
		}
		d, err := msg.GetDialog()
		if err == nil {
			code = r.id(d)
		}
	})
	if pm != "" {
		code = "PANIC"
	}
	m := vfM{"ev": "msg", "case": caseID, "cls": cls, "code": code}
	for k, x := range abs {
		m[k] = x
	}
	if v&vfDlgSwap != 0 {
		m["ft"], m["tt"] = m["tt"], m["ft"]
		m["fu"], m["tu"] = m["tu"], m["fu"]
		m["hasft"], m["hastt"] = m["hastt"], m["hasft"]
	}
	r.tr.Emit(m)
}

func TestVfDialog(t *testing.T) {
	tr := vfOpenTrace(t, "VERIF_TRACE")
	defer tr.Close()
	r := &vfDlgRun{tr: tr, intern: map[string]string{}}
	rg := vfRand(16)
	rnd := func(n int) int { return rg.Intn(n) }
	nvar := vfEnvInt("VERIF_NVAR", 4)
	n := 0

	// (1) the model's universe, emitted by TLC; one batch
	if in := vfEnv("VERIF_IN", ""); in != "" {
		tr.Emit(vfM{"ev": "reset", "case": "universe"})
		seen := map[string]bool{}
		k := 0
		vfReadBehaviours(t, in, func(raw []byte) {
			if seen[string(raw)] {
				return
			}
			seen[string(raw)] = true
			k++
			var a vfDlgAbs
			if err := json.Unmarshal(raw, &a); err != nil {
				t.Fatalf("bad message: %v", err)
			}
			c := vfDlgConc{cid: vfDlgTok(a.Cid), ft: vfDlgTok(a.Ft), fu: vfDlgUri(t, a.Fu), tt: vfDlgTok(a.Tt), tu: vfDlgUri(t, a.Tu)}
			abs := vfM{"cid": a.Cid, "ft": a.Ft, "fu": a.Fu, "tt": a.Tt, "tu": a.Tu, "hasft": true, "hastt": true}
			// the plain rendering, and nvar seeded variants
			r.one(fmt.Sprintf("u%d-v0", k), abs, c, 0, rnd)
			for j := 0; j < nvar; j++ {
				v := 1 + rnd(vfDlgNVar-1)
				r.one(fmt.Sprintf("u%d-v%d", k, v), abs, c, v, rnd)
				n++
			}
			// a message lacking either tag belongs to no dialog
			if k%7 == int(vfSeed()%7) {
				c2 := c
				abs2 := vfM{"cid": a.Cid, "ft": []int{}, "fu": a.Fu, "tt": a.Tt, "tu": a.Tu, "hasft": false, "hastt": true}
				c2.ft = ""
				r.one(fmt.Sprintf("u%d-nofromtag", k), abs2, c2, rnd(vfDlgNVar)&^vfDlgSwap, rnd)
				c3 := c
				abs3 := vfM{"cid": a.Cid, "ft": a.Ft, "fu": a.Fu, "tt": []int{}, "tu": a.Tu, "hasft": true, "hastt": false}
				c3.tt = ""
				r.one(fmt.Sprintf("u%d-nototag", k), abs3, c3, rnd(vfDlgNVar)&^vfDlgSwap, rnd)
			}
			n++
		})
	}

	// (2) random realistic identifiers: a base dialog and its one-component mutations, all variants
	nrand := vfEnvInt("VERIF_NRAND", 60)
	alnum := "abcdefghijklmnopqrstuvwxyz0123456789"
	word := func(min, max int, extra string) string {
		k := min + rnd(max-min+1)
		b := make([]byte, k)
		for i := range b {
			al := alnum + extra
			b[i] = al[rnd(len(al))]
		}
		return string(b)
	}
	mkURI := func() string {
		switch rnd(6) {
		case 0:
			return "tel:+" + word(5, 12, "")[:5] + fmt.Sprint(1000+rnd(9000))
		case 1:
			return "urn:service:" + word(3, 8, "-")
		case 2:
			return "sips:" + word(3, 10, "._") + "@" + word(3, 12, "-") + ".example.org"
		case 3:
			return fmt.Sprintf("sip:%s@10.%d.%d.%d:%d", word(3, 10, "+._"), rnd(250), rnd(250), 1+rnd(250), 1024+rnd(60000))
		case 4:
			return "sip:" + word(4, 14, "-") + ".example.net"
		}
		return "sip:" + word(3, 10, "._") + ":" + word(3, 6, "") + "@" + word(3, 12, "-") + ".example.com"
	}
	for i := 0; i < nrand; i++ {
		tr.Emit(vfM{"ev": "reset", "case": fmt.Sprintf("rand%d", i)})
		base := vfDlgConc{cid: word(8, 40, "-.@"), ft: word(4, 16, "-._"), fu: mkURI(), tt: word(4, 16, "-._"), tu: mkURI()}
		if rnd(4) == 0 {
			base.tu = base.fu // equal URIs on both sides
		}
		if rnd(8) == 0 {
			base.tt = base.ft
		}
		muts := []vfDlgConc{base}
		for j := 0; j < 6; j++ {
			m := base
			switch rnd(5) {
			case 0:
				m.cid = word(8, 40, "-.@")
			case 1:
				m.ft = word(4, 16, "-._")
			case 2:
				m.tt = word(4, 16, "-._")
			case 3:
				m.fu = mkURI()
			case 4:
				m.tu = mkURI()
			}
			muts = append(muts, m)
		}
		// the '-' join: move a piece of the Call-ID into the tag
		if p := strings.IndexByte(base.cid, '-'); p > 0 && p < len(base.cid)-1 {
			m := base
			m.cid, m.ft = base.cid[:p], base.cid[p+1:]+"-"+base.ft
			m2 := base
			m2.cid, m2.tt = base.cid[:p], base.cid[p+1:]+"-"+base.tt
			muts = append(muts, m, m2)
		}
		for j, m := range muts {
			abs := vfM{"cid": m.cid, "ft": m.ft, "fu": m.fu, "tt": m.tt, "tu": m.tu, "hasft": true, "hastt": true}
			r.one(fmt.Sprintf("rand%d-m%d-v0", i, j), abs, m, 0, rnd)
			for q := 0; q < nvar; q++ {
				v := 1 + rnd(vfDlgNVar-1)
				r.one(fmt.Sprintf("rand%d-m%d-v%d", i, j, v), abs, m, v, rnd)
			}
			n++
		}
	}
	fmt.Printf("VF cases=%d events=%d\n", n, tr.n)
}
