//go:build verif

package main

// The abstraction function alpha (DESIGN.md 4.1): an independent, minimal SIP
// reader written from RFC 3261 sections 7 and 25 - it shares no code with the
// repository's parser - that maps the bytes the harness sends and the bytes the
// proxy emits to the abstract messages the TLA+ specification talks about.
// Opaque byte strings are interned: equal ids <=> equal bytes.

import (
	"bytes"
	"crypto/sha256"
	"fmt"
	"strconv"
	"strings"
)

type vfKV = []string // [key, value]; a parameter without '=' has value vfNoVal

const vfNoVal = "<novalue>"

type vfAUri struct {
	Scheme string  `json:"scheme"`
	User   string  `json:"user"`
	Pass   string  `json:"pass"`
	Host   string  `json:"host"`
	Port   int     `json:"port"` // 0 = absent
	Params []vfKV  `json:"params"`
	Hdrs   []vfKV  `json:"hdrs"`
	Opaque string  `json:"opaque"` // non-sip URIs: everything after the scheme
	Raw    string  `json:"raw"`    // interned id of the whole URI text
}

type vfAEnt struct {
	// Via entry
	Proto  string `json:"proto"`
	Host   string `json:"host"`
	Port   int    `json:"port"`
	Rport  int    `json:"rport"` // numeric value of an rport parameter, 0 = none / valueless / not numeric
	Params []vfKV `json:"params"`
	// Route / Record-Route / From / To entry
	Disp    string `json:"disp"`
	Uri     vfAUri `json:"uri"`
	HParams []vfKV `json:"hparams"`
	Bad     bool   `json:"bad"`
}

type vfAHdr struct {
	Cls  string   `json:"cls"`
	Nm   string   `json:"nm"`  // exact field name
	Cn   string   `json:"cn"`  // canonical (lower-case, long form) field name
	Val  string   `json:"val"` // interned value (trimmed of SP / HTAB)
	Ents []vfAEnt `json:"ents"`
}

type vfAMsg struct {
	Kind   string   `json:"kind"` // "req", "resp", "garbled"
	Method string   `json:"method"`
	Status int      `json:"status"`
	Start  string   `json:"start"` // interned start line
	Ruri   vfAUri   `json:"ruri"`
	Hdrs   []vfAHdr `json:"hdrs"`
	Body   string   `json:"body"` // interned (sha256 + length)
	Blen   int      `json:"blen"`
}

// ------------------------------------------------------------- interning

type vfInterner struct{}

var vfIntern = &vfInterner{}

// Id returns s itself when it is short and harmless, otherwise a stable id: 64 bits of SHA-256 and the length.  Equal
// strings get equal ids; two different strings getting the same id (about 3e-8 over a million values) could only
// hide a difference, never invent one.  Nothing is stored: a thorough run abstracts tens of gigabytes of header values.
func (in *vfInterner) Id(s string) string {
	if len(s) <= 40 && !strings.ContainsAny(s, "\"\\\x00\r\n\t|") && isPrintableASCII(s) && !strings.HasPrefix(s, "#") {
		return s
	}
	h := sha256.Sum256([]byte(s))
	return fmt.Sprintf("#%x-%d", h[:8], len(s))
}

func isPrintableASCII(s string) bool {
	for i := 0; i < len(s); i++ {
		if s[i] < 0x20 || s[i] > 0x7e {
			return false
		}
	}
	return true
}

func vfBodyId(b []byte) string {
	if len(b) == 0 {
		return "empty"
	}
	h := sha256.Sum256(b)
	return fmt.Sprintf("b%x-%d", h[:6], len(b))
}

// ------------------------------------------------------------- names

var vfCompact = map[string]string{"v": "via", "f": "from", "t": "to", "i": "call-id", "l": "content-length",
	"m": "contact", "c": "content-type", "e": "content-encoding", "k": "supported", "s": "subject",
	"o": "event", "r": "refer-to", "b": "referred-by", "u": "allow-events", "a": "accept-contact"}

var vfClsOf = map[string]string{"via": "via", "route": "route", "record-route": "rr", "from": "from", "to": "to",
	"call-id": "callid", "cseq": "cseq", "content-length": "clen", "max-forwards": "maxfwd", "expires": "expires",
	"subscription-state": "substate"}

// vfCanonName: lower-case long form of a field name
func vfCanonName(n string) string {
	l := strings.ToLower(n)
	if c, ok := vfCompact[l]; ok {
		return c
	}
	return l
}

func vfClass(n string) string {
	if c, ok := vfClsOf[vfCanonName(n)]; ok {
		return c
	}
	return "other"
}

func vfTrimLWS(s string) string { return strings.Trim(s, " \t") }

// ------------------------------------------------------------- URIs

func vfParams(s string, sep string) []vfKV {
	r := []vfKV{}
	if s == "" {
		return r
	}
	for _, p := range strings.Split(s, sep) {
		if i := strings.IndexByte(p, '='); i >= 0 {
			r = append(r, vfKV{vfIntern.Id(p[:i]), vfIntern.Id(p[i+1:])})
		} else {
			r = append(r, vfKV{vfIntern.Id(p), vfNoVal})
		}
	}
	return r
}

func vfAbsUri(s string) vfAUri {
	u := vfAUri{Params: []vfKV{}, Hdrs: []vfKV{}, Raw: vfIntern.Id(s)}
	i := strings.IndexByte(s, ':')
	if i < 0 {
		u.Scheme = "none"
		u.Opaque = vfIntern.Id(s)
		return u
	}
	u.Scheme = strings.ToLower(s[:i])
	rest := s[i+1:]
	if u.Scheme != "sip" && u.Scheme != "sips" {
		u.Opaque = vfIntern.Id(rest)
		return u
	}
	if j := strings.IndexByte(rest, '?'); j >= 0 {
		u.Hdrs = vfParams(rest[j+1:], "&")
		rest = rest[:j]
	}
	hostpart := rest
	if j := strings.LastIndexByte(rest, '@'); j >= 0 {
		ui := rest[:j]
		hostpart = rest[j+1:]
		if k := strings.IndexByte(ui, ':'); k >= 0 {
			u.User, u.Pass = vfIntern.Id(ui[:k]), vfIntern.Id(ui[k+1:])
		} else {
			u.User = vfIntern.Id(ui)
		}
	}
	if j := strings.IndexByte(hostpart, ';'); j >= 0 {
		u.Params = vfParams(hostpart[j+1:], ";")
		hostpart = hostpart[:j]
	}
	host, port := hostpart, ""
	if strings.HasPrefix(hostpart, "[") {
		if k := strings.IndexByte(hostpart, ']'); k >= 0 {
			host = hostpart[:k+1]
			if len(hostpart) > k+1 && hostpart[k+1] == ':' {
				port = hostpart[k+2:]
			}
		}
	} else if k := strings.LastIndexByte(hostpart, ':'); k >= 0 {
		host, port = hostpart[:k], hostpart[k+1:]
	}
	u.Host = vfIntern.Id(host)
	if port != "" {
		n, err := strconv.Atoi(port)
		if err != nil {
			n = -1
		}
		u.Port = n
	}
	return u
}

// ------------------------------------------------------------- list headers

// split at top-level commas (outside <...> and "...")
func vfSplitTop(s string, sep byte) []string {
	var r []string
	depth, inq, start := 0, false, 0
	for i := 0; i < len(s); i++ {
		c := s[i]
		switch {
		case c == '"':
			inq = !inq
		case inq:
		case c == '<':
			depth++
		case c == '>':
			if depth > 0 {
				depth--
			}
		case c == sep && depth == 0:
			r = append(r, s[start:i])
			start = i + 1
		}
	}
	return append(r, s[start:])
}

func vfEmptyEnt() vfAEnt {
	return vfAEnt{Params: []vfKV{}, HParams: []vfKV{}, Uri: vfAUri{Params: []vfKV{}, Hdrs: []vfKV{}}}
}

func vfAbsVia(v string) vfAEnt {
	e := vfEmptyEnt()
	v = vfTrimLWS(v)
	parts := strings.Split(v, ";")
	f := strings.Fields(parts[0])
	if len(f) != 2 {
		e.Bad = true
		return e
	}
	sp := strings.Split(f[0], "/")
	if len(sp) != 3 {
		e.Bad = true
		return e
	}
	e.Proto = vfIntern.Id(sp[2])
	hp := f[1]
	host, port := hp, ""
	if strings.HasPrefix(hp, "[") {
		if k := strings.IndexByte(hp, ']'); k >= 0 {
			host = hp[:k+1]
			if len(hp) > k+1 && hp[k+1] == ':' {
				port = hp[k+2:]
			}
		}
	} else if k := strings.LastIndexByte(hp, ':'); k >= 0 {
		host, port = hp[:k], hp[k+1:]
	}
	e.Host = vfIntern.Id(host)
	if port != "" {
		n, err := strconv.Atoi(port)
		if err != nil {
			e.Bad = true
		}
		e.Port = n
	}
	for _, p := range parts[1:] {
		p = vfTrimLWS(p)
		if i := strings.IndexByte(p, '='); i >= 0 {
			e.Params = append(e.Params, vfKV{vfIntern.Id(p[:i]), vfIntern.Id(p[i+1:])})
			if p[:i] == "rport" && e.Rport == 0 {
				if n, err := strconv.Atoi(p[i+1:]); err == nil && n > 0 {
					e.Rport = n
				}
			}
		} else {
			e.Params = append(e.Params, vfKV{vfIntern.Id(p), vfNoVal})
		}
	}
	return e
}

// vfAbsAddr abstracts a From / To value: name-addr or bare addr-spec, then header parameters
func vfAbsAddr(v string) vfAEnt {
	v = vfTrimLWS(v)
	if strings.IndexByte(v, '<') >= 0 {
		return vfAbsRoute(v)
	}
	e := vfEmptyEnt()
	uri, rest := v, ""
	if i := strings.IndexByte(v, ';'); i >= 0 {
		uri, rest = v[:i], v[i+1:]
	}
	e.Uri = vfAbsUri(vfTrimLWS(uri))
	if rest != "" {
		for _, p := range strings.Split(rest, ";") {
			p = vfTrimLWS(p)
			if i := strings.IndexByte(p, '='); i >= 0 {
				e.HParams = append(e.HParams, vfKV{vfIntern.Id(p[:i]), vfIntern.Id(p[i+1:])})
			} else {
				e.HParams = append(e.HParams, vfKV{vfIntern.Id(p), vfNoVal})
			}
		}
	}
	return e
}

func vfAbsRoute(v string) vfAEnt {
	e := vfEmptyEnt()
	v = vfTrimLWS(v)
	lt := strings.IndexByte(v, '<')
	gt := strings.IndexByte(v, '>')
	if lt < 0 || gt < lt {
		e.Bad = true
		return e
	}
	e.Disp = vfIntern.Id(vfTrimLWS(v[:lt]))
	e.Uri = vfAbsUri(v[lt+1 : gt])
	rest := vfTrimLWS(v[gt+1:])
	if rest != "" {
		if rest[0] != ';' {
			e.Bad = true
			return e
		}
		for _, p := range strings.Split(rest[1:], ";") {
			p = vfTrimLWS(p)
			if i := strings.IndexByte(p, '='); i >= 0 {
				e.HParams = append(e.HParams, vfKV{vfIntern.Id(p[:i]), vfIntern.Id(p[i+1:])})
			} else {
				e.HParams = append(e.HParams, vfKV{vfIntern.Id(p), vfNoVal})
			}
		}
	}
	return e
}

// ------------------------------------------------------------- messages

// vfAlpha abstracts one complete SIP message (start line, headers, body).
func vfAlpha(raw []byte) vfAMsg {
	m := vfAMsg{Kind: "garbled", Hdrs: []vfAHdr{}, Ruri: vfAUri{Params: []vfKV{}, Hdrs: []vfKV{}}}
	sep := []byte("\r\n\r\n")
	i := bytes.Index(raw, sep)
	if i < 0 {
		return m
	}
	head := string(raw[:i])
	body := raw[i+len(sep):]
	lines := strings.Split(head, "\r\n")
	if len(lines) == 0 {
		return m
	}
	start := lines[0]
	m.Start = vfIntern.Id(start)
	if strings.HasPrefix(start, "SIP/") {
		f := strings.SplitN(start, " ", 3)
		if len(f) < 2 {
			return m
		}
		st, err := strconv.Atoi(f[1])
		if err != nil {
			return m
		}
		m.Kind, m.Status = "resp", st
	} else {
		f := strings.Split(start, " ")
		if len(f) != 3 {
			return m
		}
		m.Kind, m.Method = "req", f[0]
		m.Ruri = vfAbsUri(f[1])
	}
	for _, ln := range lines[1:] {
		c := strings.IndexByte(ln, ':')
		if c < 0 {
			m.Kind = "garbled"
			return m
		}
		name := ln[:c]
		val := vfTrimLWS(ln[c+1:])
		h := vfAHdr{Cls: vfClass(name), Nm: vfIntern.Id(name), Cn: vfCanonName(name), Val: vfIntern.Id(val), Ents: []vfAEnt{}}
		switch h.Cls {
		case "via":
			for _, p := range vfSplitTop(val, ',') {
				h.Ents = append(h.Ents, vfAbsVia(p))
			}
		case "route", "rr":
			for _, p := range vfSplitTop(val, ',') {
				h.Ents = append(h.Ents, vfAbsRoute(p))
			}
		case "from", "to":
			h.Ents = append(h.Ents, vfAbsAddr(val))
		}
		if h.Cls == "cseq" && m.Kind == "resp" {
			f := strings.Fields(val)
			if len(f) == 2 {
				m.Method = f[1]
			}
		}
		m.Hdrs = append(m.Hdrs, h)
	}
	m.Body = vfBodyId(body)
	m.Blen = len(body)
	return m
}
