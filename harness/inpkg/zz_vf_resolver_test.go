//go:build verif

package main

// Driver for C19: resolution-outcome sequences (all sequences emitted by TLC,
// and random longer ones) injected at DynamicHostResolver.addressResolved -
// the name lookup itself is the environment - of a real resolver wired to a
// real RoundRobinBackend by the real callback of CreateRoundRobinBackend and
// to a real Proxy loop through the backend-change events.  Quiescence between
// steps is established with the res.notified / rr.add / rr.rm / loop.bev hooks.

import (
	"bufio"
	"bytes"
	"encoding/json"
	"errors"
	"fmt"
	"net"
	"sort"
	"strings"
	"sync"
	"sync/atomic"
	"testing"
	"time"
)

type vfResOutcome struct {
	Ok    bool     `json:"ok"`
	Addrs []string `json:"addrs"`
}

type vfResRun struct {
	t        *testing.T
	tr       *vfTrace
	g        *vfGamma
	p        *Proxy
	rb       *RoundRobinBackend
	bev      chan string
	notified chan struct{}
	changes  int32
	mu       sync.Mutex
	removed  []Backend
	lmsg     chan string
	seen     map[string]bool // every backend address (ip:port) the rotation of this case has ever held
	nprobe   int
}

func (r *vfResRun) hook(ev string, kv ...interface{}) {
	switch ev {
	case "loop.bev":
		if len(kv) > 0 && kv[0] == interface{}(r.p) {
			r.bev <- ev
		}
	case "loop.msg":
		if len(kv) > 0 && kv[0] == interface{}(r.p) && r.lmsg != nil {
			r.lmsg <- ev
		}
	case "res.notified":
		if len(kv) > 0 && kv[0] == interface{}(dynamicHostResolver) {
			r.notified <- struct{}{}
		}
	case "rr.add", "rr.rm":
		if len(kv) > 0 && kv[0] == interface{}(r.rb) {
			atomic.AddInt32(&r.changes, 1)
		}
	}
}

func (r *vfResRun) ipOf(sym string) string {
	var n int
	fmt.Sscanf(sym, "%d", &n)
	return r.g.ip(fmt.Sprintf("10.0.7.%d", n))
}

func (r *vfResRun) step(id, name, proto, port string, o vfResOutcome) {
	before := dynamicHostResolver.GetAddrsOfHost(name)
	prev := r.rb.GetAllBackend()
	var addrs []string
	for _, a := range o.Addrs {
		addrs = append(addrs, r.ipOf(a))
	}
	var err error
	if !o.Ok {
		err = errors.New("scripted resolution failure")
		addrs = nil
	} else if addrs == nil {
		addrs = []string{}
	}
	atomic.StoreInt32(&r.changes, 0)
	// the code under test gets its own copy: what is logged as "the resolution said" must be what the driver produced
	given := append([]string(nil), addrs...)
	if addrs != nil && given == nil {
		given = []string{}
	}
	pm := vfCatch(func() { dynamicHostResolver.addressResolved(name, given, err) })
	after := dynamicHostResolver.GetAddrsOfHost(name)
	// a notification is in flight iff the resolver's view of the name changed
	changed := len(before) != len(after)
	if !changed {
		bs := append([]string(nil), before...)
		as := append([]string(nil), after...)
		sort.Strings(bs)
		sort.Strings(as)
		for i := range bs {
			if bs[i] != as[i] {
				changed = true
			}
		}
	}
	if changed && pm == "" {
		select {
		case <-r.notified:
		case <-time.After(2 * time.Second):
		}
	} else {
		// a notification that should not exist would still be seen
		select {
		case <-r.notified:
		case <-time.After(200 * time.Microsecond):
		}
	}
	n := int(atomic.LoadInt32(&r.changes))
	for i := 0; i < n; i++ {
		select {
		case <-r.bev:
		case <-time.After(2 * time.Second):
			i = n
		}
	}
	// observe
	cur := r.rb.GetAllBackend()
	member := []string{}
	openOK := true
	for a, be := range cur {
		member = append(member, a)
		if u, ok := be.(*UDPBackend); ok {
			if _, err := u.udpConn.WriteToUDP([]byte("\r\n"), u.backendAddr); err != nil {
				openOK = false
			}
		}
	}
	sort.Strings(member)
	closedOK := true
	for a, be := range prev {
		if _, still := cur[a]; !still {
			if u, ok := be.(*UDPBackend); ok {
				if _, err := u.udpConn.WriteToUDP([]byte("\r\n"), u.backendAddr); err == nil {
					closedOK = false
				}
			}
		}
	}
	known := []string{}
	for a, bw := range r.p.backends {
		if bw.parent == r.rb {
			known = append(known, a)
		}
	}
	sort.Strings(known)
	// ... and behaviourally: a dialog-establishing response from every address the rotation has ever held goes through
	// the real message loop; it is attributed (the dialog gets pinned) to a backend object or not.  The last address
	// probed is the proxy's most recent responder when the next resolution outcome arrives.
	for a := range cur {
		r.seen[a] = true
	}
	for a := range prev {
		r.seen[a] = true
	}
	var univ []string
	for a := range r.seen {
		univ = append(univ, a)
	}
	sort.Strings(univ)
	attr, stale := []string{}, []string{}
	for _, a := range univ {
		if pm != "" {
			break
		}
		r.nprobe++
		i := strings.LastIndexByte(a, ':')
		prt := 0
		fmt.Sscanf(a[i+1:], "%d", &prt)
		raw := vfRender("SIP/2.0 200 OK", []vfHdr{{"Via", fmt.Sprintf("SIP/2.0/UDP %s:5060;branch=z9hG4bKprobe%d", r.g.ip("10.0.0.1"), r.nprobe)},
			{"From", fmt.Sprintf("<sip:a@a.example>;tag=pf%d", r.nprobe)}, {"To", fmt.Sprintf("<sip:service@svc.example.com>;tag=pt%d", r.nprobe)},
			{"Call-ID", fmt.Sprintf("probe-%d@%s", r.nprobe, r.g.base)}, {"CSeq", "1 INVITE"}, {"Content-Length", "0"}}, nil)
		msg, err := ParseMessage(bufio.NewReaderSize(bytes.NewBuffer(raw), len(raw)))
		if err != nil {
			r.t.Fatalf("VF-INFRA probe response not accepted by the parser: %v", err)
		}
		dlg, err := msg.GetDialog()
		if err != nil {
			r.t.Fatalf("VF-INFRA probe response has no dialog: %v", err)
		}
		r.p.HandleRawMessage(NewRawMessage(a[:i], prt, &vfST{proto: "UDP", addr: r.g.ip("10.0.0.1"), port: 5060}, true, msg))
		select {
		case <-r.lmsg:
		case <-time.After(20 * time.Second):
			pm = "stuck: the message loop did not process a response"
			continue
		}
		if be, err := r.p.dialogBasedBackends.GetBackend(dlg); err == nil && be != nil {
			if cb, ok := cur[a]; ok && cb == be {
				attr = append(attr, a)
			} else {
				stale = append(stale, a)
			}
			r.p.dialogBasedBackends.RemoveDialog(dlg)
		}
	}
	r.tr.Emit(vfM{"ev": "resolved", "case": id, "cls": proto, "name": name, "ok": o.Ok, "addrs": addrs2(addrs), "member": member, "known": known,
		"attributed": attr, "attributed_stale": stale, "closed_ok": closedOK, "open_ok": openOK, "panic": pm})
}

func addrs2(a []string) []string {
	if a == nil {
		return []string{}
	}
	return a
}

// open builds one rotation from host-name backends; every name has its own transport and port (as a configuration
// may list  udp://hostA:5080  next to  tcp://hostB:5090 )
func (r *vfResRun) open(id string, protos []string, names []string, ports []string) {
	var urls []string
	pm := vfM{}
	for i, n := range names {
		urls = append(urls, fmt.Sprintf("%s://%s:%s", protos[i], n, ports[i]))
		pm[n] = ports[i]
	}
	rb, err := CreateRoundRobinBackend(net.JoinHostPort("", "0"), urls, func(net.Conn) {})
	if err != nil {
		r.t.Fatalf("VF-INFRA CreateRoundRobinBackend: %v", err)
	}
	r.rb = rb
	r.seen = map[string]bool{}
	rb.AddBackendChangeListener(r.p)
	r.tr.Emit(vfM{"ev": "reset", "case": id, "ports": pm})
}

func TestVfResolver(t *testing.T) {
	tr := vfOpenTrace(t, "VERIF_TRACE")
	defer tr.Close()
	r := &vfResRun{t: t, tr: tr, bev: make(chan string, 4096), notified: make(chan struct{}, 64), lmsg: make(chan string, 64)}
	r.g = &vfGamma{base: vfIPBase(), rnd: vfRand(19)}
	// an own resolver instance with a long interval: its periodic loop never interferes
	dynamicHostResolver.Stop()
	dynamicHostResolver = NewDynamicHostResolver(36000)
	time.Sleep(20 * time.Millisecond)
	vfSetHook(r.hook)
	r.p = NewProxy("svc.example.com", 1200, r.g.ip("10.0.0.1"), false, NewPreConfigRoute(), NewPreConfigHostResolver(), NewSelfLearnRoute(), true, false)
	ncase := 0
	rnd := vfRand(190)
	finish := func(id string, names []string, protos, ports []string) {
		// leave nothing behind: the proxy object is shared by all cases
		for i, n := range names {
			r.step(id, n, protos[i], ports[i], vfResOutcome{Ok: true, Addrs: []string{}})
		}
	}
	if in := vfEnv("VERIF_IN", ""); in != "" {
		stride := vfEnvInt("VERIF_STRIDE", 1)
		k := 0
		vfReadBehaviours(t, in, func(raw []byte) {
			k++
			if stride > 1 && (int64(k)+vfSeed())%int64(stride) != 0 {
				return
			}
			var seq []vfResOutcome
			if err := json.Unmarshal(raw, &seq); err != nil {
				t.Fatalf("bad sequence: %v", err)
			}
			proto := []string{"udp", "tcp"}[k%2]
			id := fmt.Sprintf("tlc%d", k)
			name := fmt.Sprintf("b%d.verif.invalid", k)
			r.open(id, []string{proto}, []string{name}, []string{"5070"})
			for _, o := range seq {
				r.step(id, name, proto, "5070", o)
			}
			finish(id, []string{name}, []string{proto}, []string{"5070"})
			ncase++
		})
	}
	// random: up to length 60 over the subsets of 5 addresses, one or two host names with disjoint address sets
	nrand := vfEnvInt("VERIF_NRAND", 40)
	for i := 0; i < nrand; i++ {
		proto := []string{"udp", "tcp"}[rnd.Intn(2)]
		id := fmt.Sprintf("rand%d", i)
		names := []string{fmt.Sprintf("r%da.verif.invalid", i)}
		protos, ports := []string{proto}, []string{"5080"}
		pools := [][]string{{"1", "2", "3", "4", "5"}}
		if rnd.Intn(2) == 0 {
			names = append(names, fmt.Sprintf("r%db.verif.invalid", i))
			pools = [][]string{{"1", "2", "3"}, {"4", "5", "6", "7"}}
			// the second name on its own port and, half of the time, its own transport
			protos, ports = append(protos, []string{proto, "udp", "tcp"}[rnd.Intn(3)]), append(ports, []string{"5080", "5090", "5090"}[rnd.Intn(3)])
		}
		r.open(id, protos, names, ports)
		n := 10 + rnd.Intn(51)
		for s := 0; s < n; s++ {
			w := rnd.Intn(len(names))
			o := vfResOutcome{Ok: rnd.Intn(3) != 0}
			if o.Ok {
				for _, a := range pools[w] {
					if rnd.Intn(2) == 0 {
						o.Addrs = append(o.Addrs, a)
					}
				}
				rnd.Shuffle(len(o.Addrs), func(x, y int) { o.Addrs[x], o.Addrs[y] = o.Addrs[y], o.Addrs[x] })
			}
			r.step(id, names[w], protos[w], ports[w], o)
		}
		finish(id, names, protos, ports)
		ncase++
	}
	fmt.Printf("VF cases=%d events=%d\n", ncase, tr.n)
}
