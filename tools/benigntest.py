#!/usr/bin/env python3
"""benigntest.py <dir-with patch.diff> <name> [--checks C01,C02,...] [--par 4]
Applies a behaviour-preserving change to a scratch copy of /repo, checks that it builds and that the repository's
suite passes, and runs the named checks (default: all of MANIFEST.json) against the copy: every one must exit 0.
Stores the change under /verif/benign/<name>/ with what was run."""
import argparse, json, os, shutil, subprocess, sys, tempfile, time
from concurrent.futures import ThreadPoolExecutor
ap = argparse.ArgumentParser()
ap.add_argument("src"); ap.add_argument("name"); ap.add_argument("--checks", default=""); ap.add_argument("--par", type=int, default=4)
ap.add_argument("--seed", default="1")
a = ap.parse_args()
V = os.path.dirname(os.path.dirname(os.path.abspath(__file__)))
E = dict(os.environ, GOFLAGS="-mod=mod", GOPROXY="off", GOSUMDB="off", GOTOOLCHAIN="local")
d = tempfile.mkdtemp(prefix="benign-")
try:
    subprocess.run(["rsync", "-a", "--exclude", ".git", "--exclude", "/sipproxy", "/repo/", d + "/"], check=True)
    p = subprocess.run("patch -p1 --no-backup-if-mismatch -F3 < %s" % os.path.abspath(os.path.join(a.src, "patch.diff")), cwd=d, shell=True, capture_output=True, text=True)
    print("apply:", p.returncode, p.stdout.strip().replace("\n", " | ")[:300])
    if p.returncode:
        sys.exit(3)
    b = subprocess.run(["go", "build", "-o", "/dev/null", "."], cwd=d, env=E, capture_output=True, text=True)
    if b.returncode:
        print("DOES NOT BUILD\n" + b.stderr); sys.exit(3)
    s = subprocess.run(["go", "test", "-vet=off", "-count=1", "./..."], cwd=d, env=E, capture_output=True, text=True)
    print("suite with change: rc=%d" % s.returncode)
    ids = [x for x in a.checks.split(",") if x] or [c["property_id"] for c in json.load(open(os.path.join(V, "MANIFEST.json")))["checks"]]
    E2 = dict(E, VERIF_REPO=d, VERIF_SEED=a.seed)
    def run(c):
        t = time.time()
        r = subprocess.run([os.path.join(V, "bin", "check"), c, "quick"], env=E2, capture_output=True, text=True)
        lines = [l for l in r.stdout.splitlines() if l.startswith(("VIOLATION", "NOTE", "  "))][:6]
        return {"check": c, "rc": r.returncode, "wall": round(time.time() - t), "lines": lines, "err": r.stderr[-1500:] if r.returncode == 2 else ""}
    with ThreadPoolExecutor(a.par) as ex:
        res = list(ex.map(run, ids))
    bad = [r for r in res if r["rc"] != 0]
    for r in res:
        if r["rc"] != 0 or r["lines"]:
            print("CHECK %s on %s: rc=%d (%ds) %s %s" % (r["check"], a.name, r["rc"], r["wall"], " | ".join(r["lines"])[:600], r["err"][-600:]))
    print("BENIGN %s: %d checks, %d alarms" % (a.name, len(res), len(bad)))
    dst = os.path.join(V, "benign", a.name)
    os.makedirs(dst, exist_ok=True)
    for f in ("patch.diff", "benign_demo_test.go", "meta.json"):
        if os.path.exists(os.path.join(a.src, f)):
            shutil.copy(os.path.join(a.src, f), dst)
    mp = os.path.join(dst, "meta.json")
    meta = json.load(open(mp)) if os.path.exists(mp) else {}
    meta["suite_passes_with_change_confirmed"] = (s.returncode == 0)
    meta.setdefault("ran", []).append({"on_repo_commit": subprocess.run(["git", "-C", "/repo", "rev-parse", "--short", "HEAD"], capture_output=True, text=True).stdout.strip(),
                                       "seed": a.seed, "results": [{k: r[k] for k in ("check", "rc", "wall", "lines")} for r in res]})
    json.dump(meta, open(mp, "w"), indent=1)
finally:
    shutil.rmtree(d, ignore_errors=True)
