#!/bin/bash
# runs every check of MANIFEST.json (tier $1, default quick) with seed $2 (default 1), 4 at a time; prints one line per check
T=${1:-quick}; S=${2:-1}
cd "$(dirname "$0")/.."
ids=${IDS:-$(python3 -c "import json;print(' '.join(c['property_id'] for c in json.load(open('MANIFEST.json'))['checks']))")}
mkdir -p /tmp/runall.$$
for i in $ids; do echo $i; done | xargs -P ${PAR:-4} -I{} sh -c "VERIF_SEED=$S bin/check {} $T > /tmp/runall.$$/{}.out 2>/tmp/runall.$$/{}.err; echo {} rc=\$? \$(grep -E '^(OK|VIOLATION|INFRA)' /tmp/runall.$$/{}.out /tmp/runall.$$/{}.err | head -2 | cut -c1-160)"
rm -rf /tmp/runall.$$
