"""C07 - received / rport record the packet's true source when enabled (stamping relation; the YAML wiring is covered by the wiring driver)."""
from proxyfam import run_focus
LEVEL = "model_checking"


def run(ctx, args):
    run_focus(ctx, "C07", [("MC_ProxyC07q.cfg" if ctx.quick else "MC_ProxyC07t.cfg", 1, 1)],
              reach=(), driver_env={"VERIF_REPS": 3 if ctx.quick else 6}, extra_drivers=[("TestVfWiring", {})],
              rule="requests whose top Via has rport absent / valueless / spoofed and received absent / spoofed, 1-4 Via entries, received-support on and off, all relaying paths; plus the YAML wiring: startProxy from YAML with no-received true / false / absent, real UDP listener, accepted TCP connection, outbound TCP connections to a TCP backend and a TCP next hop (request sent back over them)")
