"""C01 - relaying leaves everything the proxy does not own untouched."""
from proxyfam import run_focus
LEVEL = "model_checking"


def run(ctx, args):
    q = ctx.quick
    run_focus(ctx, "C01", [("MC_ProxyC01req.cfg", 4 if q else 1, 1), ("MC_ProxyC01resp.cfg", 1, 1)],
              reach=(), driver_env={"VERIF_HARD": 1, "VERIF_REPS": 2 if q else 4}, extra_drivers=[("TestVfTcpPipeline", {"VERIF_NBURST": 12 if q else 120}), ("TestVfConcurrentRelay", {"VERIF_NROUND": 12 if q else 150})],
              rule="requests and responses on every relaying path (backend, Route, static route, response by Via; UDP and TCP next hops) with 0-40 extension headers "
                   "(compact / odd-case / repeated names, values up to 16 KiB with '%', quotes, ';', ',', UTF-8 and non-UTF-8 bytes), bodies of 0-60 KiB arbitrary bytes, 7 header orders; plus bursts of 5-44 requests pipelined on one real TCP connection to a real TCP listener; plus two listeners of one service relaying at the same time (16 TCP next hops still to be dialled against a stream of 40-79 UDP relays, per round)")
