"""C12 - responses to TCP requests return on the connection the request used (Affinity.tla)."""
import os
import re
from vlib import Infra
from proxyfam import report, crash_or_infra

LEVEL = "model_checking"


def run(ctx, args):
    q = ctx.quick
    ctx.model_check("MC_Affinity", "MC_Affinity_TRUE_FALSE.cfg")
    ctx.model_check("MC_Affinity", "MC_Affinity_FALSE_FALSE.cfg")
    ctx.model_check("MC_Affinity", "MC_Affinity_TRUE_TRUE.cfg", expect_violation="AffinityInv")   # one shared object per peer breaks it
    ctx.model_check("MC_Affinity", "MC_AffinityReach.cfg", expect_violation="Reach_Overlap")
    beh = os.path.join(ctx.scratch, "affinity_behaviours.ndjson")
    ctx.emit("MC_Affinity", "MC_AffinitySim.cfg", beh, simulate="num=%d" % (150 if q else 2000), depth=16, workers=1)
    nbeh = sum(1 for _ in open(beh))
    trace = os.path.join(ctx.scratch, "affinity_trace.ndjson")
    rc, out = ctx.run_driver("TestVfAffinity", env={"VERIF_IN": beh, "VERIF_TRACE": trace, "VERIF_MAXBEH": 150 if q else 2000, "VERIF_NRAND": 20 if q else 200},
                             timeout=1800, allow_fail=True)
    if rc != 0:
        crash_or_infra(ctx, "C12", out)
        return
    m = re.search(r"VF cases=(\d+) events=(\d+)", out)
    if not m:
        raise Infra("affinity driver printed no summary:\n" + out[-2000:])
    ctx.traces = int(m.group(1))
    fails, r = ctx.validate("Trace_Affinity", "Trace_Affinity.cfg", trace)
    for f in fails:
        f["trace"] = trace
    # the transport table itself (TransTable family): design facts by TLC, then model conformance of the real table
    ctx.model_check("MC_TransTable", "MC_TransTableq.cfg" if q else "MC_TransTable.cfg", timeout=1500)      # SweptClean, InOnlyPrimary, Connected, LeakStable, LiveKept
    for w in ("Orphan", "UdpChurn", "Leak"):
        ctx.model_check("MC_TransTable", "MC_TransTableReach_%s.cfg" % w, expect_violation="Reach_" + w)
    tbeh = os.path.join(ctx.scratch, "transtable_behaviours.ndjson")
    ctx.emit("MC_TransTableSim", "MC_TransTableSim.cfg", tbeh, simulate="num=%d" % (150 if q else 3000), depth=16, workers=1)
    ttrace = os.path.join(ctx.scratch, "transtable_trace.ndjson")
    rc, out = ctx.run_driver("TestVfTransTable", env={"VERIF_IN": tbeh, "VERIF_TRACE": ttrace, "VERIF_MAXBEH": 150 if q else 3000}, timeout=1800, allow_fail=True)
    if rc != 0:
        crash_or_infra(ctx, "C12", out)
        return
    m2 = re.search(r"VF cases=(\d+) events=(\d+)", out)
    if not m2:
        raise Infra("transport-table driver printed no summary:\n" + out[-2000:])
    tfails, tr = ctx.validate("Trace_TransTable", "Trace_TransTable.cfg", ttrace)
    for f in tfails:
        f["trace"] = ttrace
    fails += tfails
    ctx.traces += int(m2.group(1))
    ctx.extra["transport_table_histories"] = int(m2.group(1))
    ctx.extra["transport_table_model_deviations"] = len(tr["warns"])
    for w in tr["warns"][:5]:
        print("NOTE: model deviation (the listed property is judged by where the responses go): line %s case %s %s" % (w["line"], w["case"], w["what"]))
    ctx.evaluations = ctx.traces
    ctx.distinct = ctx.traces
    ctx.rule = ("interleavings of requests and responses over 3 connections x 5 transactions sampled by TLC from MC_Affinity (%d behaviours; equal and different sent-by) and random runs with "
                "2-8 connections x 1-20 transactions, received-support on/off, rport requested or not, sent-by as address or host-table name; each behaviour is one case; non-trivial = at least two connections in flight" % nbeh)
    with open(trace) as fh:
        ctx.samples = [next(fh).strip() for _ in range(6)]
    ctx.assumptions += ["branches pairwise distinct (property domain)", "retransmitted final responses are not claimed"]
    ctx.trusted += ["TLC 1.8.0", "system-call level observation of client sockets behind the loop barrier"]
    report(ctx, "C12", fails, classfn=lambda f: f["what"] + "/" + re.sub(r"\d+$", "", f["case"].split("-")[-1]))
