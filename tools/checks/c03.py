"""C03 - each request goes to exactly one next hop chosen by fixed precedence."""
from proxyfam import run_focus
LEVEL = "model_checking"


def run(ctx, args):
    run_focus(ctx, "C03", [("MC_ProxyReq.cfg", 4, 1), ("MC_ProxyNames.cfg", 1, 1)],
              extra_drivers=[("TestVfRouteWiring", {})],
              reach=("Reach_Backend", "Reach_HopInserted", "Reach_Drop", "Reach_OwnConsumed"),
              rule="decision table {no Route, own only, own+next, next only, near misses} x {To host: exact, wildcard, default, none} x "
                   "{Request-URI: literal, user@host, regex-only, urn, tel, listener addr:port, wrong port, foreign; and, in a second universe, several names on one host: second user@host name, unlisted user, bare host name following a user@host name} x keep on/off x "
                   "listener port 5060/5070 x pool empty/non-empty x next hop learned/not, every cell rendered plainly and with seeded decorations; plus static routes loaded from YAML (overlapping wildcard destinations in five configuration orders, several dests per entry) through createPreConfigRoute + startProxy")
