"""C16 - dialog identity is direction-independent and discriminating (DialogOps.tla)."""
import os
import re
from vlib import Infra

LEVEL = "model_checking"


def run(ctx, args):
    q = ctx.quick
    ctx.model_check("MC_Dialog", "MC_DialogSmall.cfg" if q else "MC_Dialog.cfg", timeout=1200)
    ctx.model_check("MC_Dialog", "MC_DialogPinned.cfg", expect_violation="LawInv")  # the model separates the D6/D14 shape
    beh = os.path.join(ctx.scratch, "dialog_universe.ndjson")
    ctx.emit("MC_Dialog", "MC_DialogEmit.cfg", beh)
    nbeh = len(set(open(beh).read().splitlines()))
    trace = os.path.join(ctx.scratch, "dialog_trace.ndjson")
    rc, out = ctx.run_driver("TestVfDialog", env={"VERIF_IN": beh, "VERIF_TRACE": trace,
                                                  "VERIF_NVAR": 3 if q else 12, "VERIF_NRAND": 60 if q else 600})
    m = re.search(r"VF cases=(\d+) events=(\d+)", out)
    if not m:
        raise Infra("dialog driver printed no summary:\n" + out[-2000:])
    fails, r = ctx.validate("Trace_Dialog", "Trace_Dialog.cfg", trace)
    ctx.traces = int(m.group(2))
    ctx.evaluations = int(m.group(2))
    ctx.distinct = nbeh
    ctx.exhaustive = True
    ctx.rule = ("all %d assignments of Call-ID x tag x tag x URI x URI over the alphabets of MC_Dialog (3 Call-IDs, 4 tags incl. '-' and 't-u', "
                "6 URIs: sip with/without user and port, tel, urn), emitted by TLC, each rendered plainly and in seeded variants "
                "(orientation, request/response, display names, URI params/headers, header params, compact names, bare addr-spec); "
                "random long identifiers with one-component mutations; non-trivial = both tags present (all emitted assignments)" % nbeh)
    lines = open(trace).read().splitlines()
    ctx.samples = lines[1:4]
    ctx.assumptions += ["tags and Call-IDs non-empty; the alphabet never contains both host and host:5060 for the same user/host",
                        "the driver renders the abstract identity faithfully (plain string formatting, no repo code)"]
    ctx.trusted += ["TLC 1.8.0", "string interning of GetDialog results in the driver"]
    for f in fails:
        f["cls2"] = classify(f)
    known, new = ctx.classify(fails, lambda f: f["cls2"])
    for f, k, hit in known:
        t = "%s [%s]" % (hit.get("text", ""), k)
        if t not in ctx.known:
            ctx.known.append(t)
    classes = {}
    for f, k, _ in new:
        classes.setdefault(k, []).append(f)
    for k, fs in sorted(classes.items()):
        f = fs[0]
        p = os.path.join(ctx.scratch, "case_%s.json" % re.sub(r"\W", "_", f["case"]))
        open(p, "w").write(lines[f["line"] - 1] + "\n")
        ctx.violation("%s: e.g. case %s (%d messages of this class)" % (k, f["case"], len(fs)), files=[p], tag=f["case"], data=f)


def classify(f):
    """failure class = verdict + the decoration classes that distinguish the message"""
    d = f.get("detail", "").strip('"')
    keys = [x for x in ("bare",) if x in d]
    return f["what"] + ("/" + ",".join(keys) if keys else "")
