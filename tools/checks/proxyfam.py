"""Shared driver for the single-iteration proxy properties (C01, C02, C03, C06, C07, C13): MC_Proxy / Trace_Proxy."""
import os
import re
from vlib import Infra, panic_site


def run_focus(ctx, focus, emit_cfgs, reach=(), driver_env=None, rule="", extra_mc=(), extra_drivers=()):
    """emit_cfgs: list of (cfg, stride_quick, stride_thorough): each is model-checked (leg M: operational pipeline satisfies
    the declarative relations on every recipe) and its recipes are emitted (leg R)."""
    q = ctx.quick
    total_beh = 0
    traces = []
    for cfg, sq, st in emit_cfgs:
        beh = os.path.join(ctx.scratch, "recipes_%s.ndjson" % cfg.replace(".cfg", ""))
        ctx.emit("MC_Proxy", cfg, beh, count=True, timeout=1500)
        nbeh = len(set(open(beh).read().splitlines()))
        total_beh += nbeh
        trace = os.path.join(ctx.scratch, "trace_%s.ndjson" % cfg.replace(".cfg", ""))
        env = {"VERIF_IN": beh, "VERIF_TRACE": trace, "VERIF_STRIDE": sq if q else st, "VERIF_REPS": 2 if q else 4, "VERIF_SEQS": 60 if q else 1500}
        env.update(driver_env or {})
        rc, out = ctx.run_driver("TestVfProxy", env=env, timeout=3000, allow_fail=True)
        if rc != 0:
            crash_or_infra(ctx, focus, out)
            return
        m = re.search(r"VF cases=(\d+) events=(\d+)", out)
        if not m:
            raise Infra("proxy driver printed no summary:\n" + out[-2000:])
        ctx.traces += int(m.group(1))
        traces.append((trace, cfg))
    for test, env in extra_drivers:
        trace = os.path.join(ctx.scratch, "trace_%s.ndjson" % test)
        e = {"VERIF_TRACE": trace}
        e.update(env)
        rc, out = ctx.run_driver(test, env=e, timeout=1200, allow_fail=True)
        if rc != 0:
            crash_or_infra(ctx, focus, out)
            return
        m = re.search(r"VF cases=(\d+) events=(\d+)", out)
        if not m:
            raise Infra("%s printed no summary:\n%s" % (test, out[-2000:]))
        ctx.traces += int(m.group(1))
        ctx.extra.setdefault("extra_drivers", {})[test] = {"cases": int(m.group(1)), "events": int(m.group(2))}
        traces.append((trace, test))
    for r in reach:
        ctx.model_check("MC_Proxy", "MC_Proxy_%s.cfg" % r, expect_violation=r)
    for cfg in extra_mc:
        ctx.model_check("MC_Proxy", cfg, timeout=1500)
    allfails = []
    nwarn = 0
    for trace, cfg in traces:
        fails, r = ctx.validate("Trace_Proxy", "Trace_Proxy_%s.cfg" % focus, trace, timeout=3000)
        nwarn += len(r["warns"])
        lines = None
        for f in fails:
            f["trace"] = trace
        allfails += fails
        if not ctx.samples:
            with open(trace) as fh:
                ln = [next(fh) for _ in range(2)]
            ctx.samples = [s.strip()[:3000] for s in ln]
    ctx.evaluations = ctx.traces
    ctx.distinct = total_beh
    ctx.exhaustive = not q
    ctx.rule = rule + " (%d distinct recipes emitted by TLC; %d concrete executions; non-trivial = every recipe, each spans a distinct cell of the property's quantifier)" % (total_beh, ctx.traces)
    ctx.extra["model_deviation_warnings"] = nwarn
    ctx.extra["recipes_emitted_by_tlc"] = total_beh
    ctx.assumptions += ["alpha (harness/inpkg/zz_vf_alpha_test.go) reads SIP correctly and interning preserves equality",
                        "hosts are IPv4 literals or names of the configured host table; typed headers in canonical form (property domain)"]
    ctx.trusted += ["TLC 1.8.0", "alpha/gamma of the harness", "loopback sockets polled with MSG_DONTWAIT behind the loop barrier hook"]
    report(ctx, focus, allfails)


def fail_class(f):
    """class of a failure = verdict + the recipe dimensions that matter (from the cls string)"""
    return f["what"]


def report(ctx, focus, fails, classfn=None):
    for f in fails:
        f["cls2"] = (classfn or fail_class)(f)
    known, new = ctx.classify(fails, lambda f: f["cls2"])
    for f, k, hit in known:
        t = "%s [%s]" % (hit.get("text", ""), hit.get("match", k))
        if t not in ctx.known:
            ctx.known.append(t)
    classes = {}
    for f, k, _ in new:
        classes.setdefault(k, []).append(f)
    for k, fs in sorted(classes.items()):
        f = fs[0]
        sub = os.path.join(ctx.scratch, "case_%s.ndjson" % re.sub(r"\W", "_", f["case"]))
        extract_case(f["trace"], f["case"], sub)
        ctx.violation("%s: e.g. case %s [%s] (%d steps of this class)" % (k, f["case"], f["detail"][:200], len(fs)),
                      files=[sub], tag=f["case"], data={k2: v for k2, v in f.items() if k2 != "trace"})
    ctx.extra["failing_steps"] = len(fails)


def extract_case(trace, case, out):
    on = False
    with open(trace) as f, open(out, "w") as o:
        for line in f:
            if '"ev":"reset"' in line:
                on = ('"case":"%s"' % case) in line
            if on:
                o.write(line)


def crash_or_infra(ctx, focus, out):
    """The in-package driver died.  A panic whose stack lies in the repository's own files while an in-domain input was
    being processed is an observed behaviour the specification forbids; anything else is infrastructure."""
    if "VF-INFRA" in out:
        raise Infra("driver self-check failed:\n" + out[-3000:])
    m = re.search(r"^(panic: .*|fatal error: .*)$", out, re.M)
    site = panic_site(out, ctx.srcdir())
    if m and site and site[2]:
        p = os.path.join(ctx.scratch, "crash.txt")
        open(p, "w").write(out[-20000:])
        ctx.violation("the proxy crashed while processing an in-domain input: %s (%s:%s)" % (m.group(1)[:200], site[0], site[1]), files=[p], tag="crash")
        return
    raise Infra("driver failed:\n" + out[-4000:])
