"""C14 - headers the proxy decodes are re-encoded without loss or distortion (grammar enumeration by TLC, Trace_Codec)."""
import os
import re
from vlib import Infra
from proxyfam import report, crash_or_infra

LEVEL = "model_checking"


def cls_key(f):
    """failure class: verdict + the grammar classes the property itself declares as known findings (IPv6 reference hosts,
    user parts containing ';' or '?'); any other failing class is keyed by the verdict and the header kind."""
    d = f["detail"]
    tags = []
    if "via-random host=ipv6" in d:
        tags.append("via.host=ipv6ref")
    elif "host=ipv6" in d:
        tags.append("uri.host=ipv6ref")
    if "user=semi" in d:
        tags.append("uri.user;")
    if "user=qmark" in d:
        tags.append("uri.user?")
    m = re.search(r"hdr=(\S+)", d)
    if tags:
        return "known-class:" + "+".join(tags)
    return f["what"] + "/" + (m.group(1) if m else "?")


def run(ctx, args):
    q = ctx.quick
    beh = os.path.join(ctx.scratch, "codec_asts.ndjson")
    ctx.emit("MC_Codec", "MC_Codecq.cfg" if q else "MC_Codect.cfg", beh, count=True, timeout=3000, heap="12g")
    nbeh = len(set(open(beh).read().splitlines()))
    trace = os.path.join(ctx.scratch, "codec_trace.ndjson")
    rc, out = ctx.run_driver("TestVfCodec", env={"VERIF_IN": beh, "VERIF_TRACE": trace, "VERIF_STRIDE": 12 if q else 10, "VERIF_NKINDS": 2 if q else 3,
                                                 "VERIF_NRAND": 3000 if q else 60000}, timeout=3000, allow_fail=True)
    if rc != 0:
        crash_or_infra(ctx, "C14", out)
        return
    m = re.search(r"VF cases=(\d+) events=(\d+)", out)
    if not m:
        raise Infra("codec driver printed no summary:\n" + out[-2000:])
    ctx.traces = int(m.group(1))
    fails, r = ctx.validate("Trace_Codec", "Trace_Codec.cfg", trace, timeout=3000)
    for f in fails:
        f["trace"] = trace
    ctx.evaluations = int(m.group(1))
    ctx.distinct = nbeh
    ctx.rule = ("ASTs of the bounded grammar enumerated by TLC (%d: name-addr / bare addr-spec x display {none, token, quoted, quoted with %%} x scheme {sip, sips, tel, urn} x user {none, user, user:password, with ';', with '?'} x "
                "host {IPv4, name, IPv6 reference} x port x URI parameter sequences over {valued, valueless, lr, %%-valued} x URI headers {valued, empty} x header parameter sequences; Via lists x proto x port x parameter sequences), "
                "every %dth rendered with seeded tokens in %d header kinds each (From, To, Route, Record-Route, name-addr, addr-spec, SIP URI, Request-URI through a whole Message), plus random larger values; "
                "non-trivial = all" % (nbeh, 12 if q else 10, 2 if q else 3))
    with open(trace) as fh:
        ctx.samples = [next(fh).strip()[:1200] for _ in range(2)]
    ctx.assumptions += ["TLC's contribution to the design is small here (grammar enumeration and the laws of the one normalisation); the verdicts are TLC's on alpha of real decode/encode results",
                        "default Via port written explicitly is the documented normalisation (ViaEq)"]
    ctx.trusted += ["TLC 1.8.0", "alpha (independent reader) and the concretiser's rendering"]
    report(ctx, "C14", fails, classfn=cls_key)


def extract(*a):
    pass
