"""C09 - concurrent listeners and backend changes never corrupt or kill the proxy (Threads.tla; race detector + probe runs)."""
import os
import re
from vlib import Infra, panic_site
from proxyfam import report

LEVEL = "exploration"


def race_reports(out):
    """DATA RACE reports whose stacks touch the repository's own (non-harness) sources"""
    reps = []
    for blk in re.split(r"={18}\n", out):
        if "WARNING: DATA RACE" not in blk:
            continue
        frames = re.findall(r"^\s+(\S+\.go):(\d+)", blk, re.M)
        repo = [(f, n) for f, n in frames if "/src/" in f and "zz_vf_" not in f and not f.endswith("_test.go") and "/go/" not in f and "/usr/" not in f]
        if repo:
            reps.append((sorted(set(os.path.basename(f) for f, n in repo)), blk[:3000]))
    return reps


def run(ctx, args):
    q = ctx.quick
    ctx.model_check("Threads", "MC_Threads.cfg")
    ctx.model_check("Threads", "MC_ThreadsPinned.cfg", expect_violation="NoRace")     # the unlocked shared learnt-route table of the pinned tree
    runs = 0
    # (1) race runs: -race binary, hooks inert (no synchronisation added)
    sites = {}
    fatal = None
    for i in range(2 if q else 6):
        for attempt in (0, 1):
            try:
                rc, out = ctx.run_driver("TestVfStress", env={"VERIF_MODE": "race", "VERIF_HANG_S": 0, "VERIF_SEED": ctx.seed + i, "VERIF_PER": 250 if q else 1200}, race=True, timeout=1500, allow_fail=True)
                break
            except Infra as e:      # a run that does not end on a loaded machine is retried once; never a verdict
                if attempt or "timed out" not in str(e):
                    raise
                print("NOTE: race run %d timed out - retried once" % i)
        runs += 1
        if "VF-INFRA" in out:
            raise Infra("stress driver self-check failed:\n" + out[-3000:])
        for files, blk in race_reports(out):
            sites.setdefault("+".join(files), blk)
        m = re.search(r"^(fatal error: .*|panic: .*)$", out, re.M)
        if m and not fatal:
            ps = panic_site(out, ctx.srcdir())
            if ps and ps[2]:
                fatal = (m.group(1), out[-8000:])
            else:
                raise Infra("stress driver died outside the repository's code:\n" + out[-4000:])
        if rc != 0 and not sites and not fatal and "DATA RACE" not in out:
            raise Infra("stress driver failed:\n" + out[-4000:])
    for k, blk in sorted(sites.items()):
        p = os.path.join(ctx.scratch, "race_%s.txt" % re.sub(r"\W", "_", k))
        open(p, "w").write(blk)
        ctx.violation("data race reported by the Go race detector in %s" % k, files=[p], tag="race-" + k)
    if fatal:
        p = os.path.join(ctx.scratch, "fatal.txt")
        open(p, "w").write(fatal[1])
        ctx.violation("the proxy died under concurrent load: %s" % fatal[0][:200], files=[p], tag="fatal")
    # (2) probe runs: hooks on, no -race; a failing verdict must reproduce (kernel drops / timing do not)
    allfails = []
    lines = []
    for i in range(2 if q else 5):
        fails = probe(ctx, ctx.seed + i, q, lines)
        runs += 1
        if fails:
            again = probe(ctx, ctx.seed + i, q, lines)
            runs += 1
            confirmed = [f for f in fails if any(g["what"] == f["what"] for g in again)]
            if confirmed:
                allfails += confirmed
            else:
                print("NOTE: probe verdict %s did not reproduce on the same seed - not reported" % sorted(set(f["what"] for f in fails)))
    ctx.traces = runs
    ctx.evaluations = runs
    ctx.distinct = max(2, runs)
    ctx.rule = ("load runs on 2-4 listeners of one service started by startProxy (UDP + TCP clients, UDP + TCP backends answering, a host-name backend churned through the real resolver path, Route next hops by /etc/hosts name), "
                "GOMAXPROCS 16/2/4/1, several seeds: %d runs (race-detector runs with inert hooks + probe runs with delivery accounting); each run is one case; non-trivial = all" % runs)
    ctx.samples = lines[:5] or ["<no probe lines>"]
    ctx.extra["race_sites"] = sorted(sites)
    ctx.assumptions += ["schedules are explored by stress under the race detector, not enumerated; the exhaustive part is the lock discipline of Threads.tla",
                        "message loss is claimed only in phases without membership churn; a probe verdict must reproduce on the same seed"]
    ctx.trusted += ["TLC 1.8.0", "the Go race detector", "hooks for counting what the proxy received"]
    report(ctx, "C09", allfails, classfn=lambda f: f["what"])


def probe(ctx, seed, q, lines):
    trace = os.path.join(ctx.scratch, "stress_trace_%d.ndjson" % seed)
    rc, out = ctx.run_driver("TestVfStress", env={"VERIF_MODE": "probe", "VERIF_HANG_S": 0, "VERIF_SEED": seed, "VERIF_TRACE": trace, "VERIF_PER": 300 if q else 1500}, timeout=1500, allow_fail=True)
    if rc != 0:
        if "VF-INFRA" in out:
            raise Infra("stress driver self-check failed:\n" + out[-3000:])
        m = re.search(r"^(fatal error: .*|panic: .*)$", out, re.M)
        ps = panic_site(out, ctx.srcdir())
        if m and ps and ps[2]:
            p = os.path.join(ctx.scratch, "fatal_probe.txt")
            open(p, "w").write(out[-8000:])
            ctx.violation("the proxy died under concurrent load: %s" % m.group(1)[:200], files=[p], tag="fatal-probe")
            return []
        raise Infra("stress driver failed:\n" + out[-4000:])
    fails, r = ctx.validate("Trace_Threads", "Trace_Threads.cfg", trace)
    for f in fails:
        f["trace"] = trace
    lines += [l.strip() for l in open(trace)]
    return fails
