"""C20 - sending survives connection faults without loss or duplication (FailoverOps.tla)."""
import os
import re
from vlib import Infra
from proxyfam import report, crash_or_infra

LEVEL = "fault_enumeration"


def run(ctx, args):
    q = ctx.quick
    beh = os.path.join(ctx.scratch, "failover_patterns.ndjson")
    ctx.emit("MC_Failover", "MC_Failover.cfg", beh, count=True)        # leg M: the two-attempt loops satisfy Demand on every pattern
    ctx.model_check("MC_Failover", "MC_FailoverReach.cfg", expect_violation="Reach_Failover")
    npat = len(set(open(beh).read().splitlines()))
    trace = os.path.join(ctx.scratch, "failover_trace.ndjson")
    rc, out = ctx.run_driver("TestVfFailover", env={"VERIF_IN": beh, "VERIF_TRACE": trace, "VERIF_REPS": 2 if q else 10}, timeout=1200, allow_fail=True)
    if rc != 0:
        crash_or_infra(ctx, "C20", out)
        return
    m = re.search(r"VF cases=(\d+) events=(\d+)", out)
    if not m:
        raise Infra("failover driver printed no summary:\n" + out[-2000:])
    ctx.traces = int(m.group(1))
    fails, r = ctx.validate("Trace_Failover", "Trace_Failover.cfg", trace)
    for f in fails:
        f["trace"] = trace
    ctx.evaluations = int(m.group(2))
    ctx.distinct = npat
    ctx.exhaustive = True
    ctx.rule = ("the full product cached inbound {absent, healthy, failing on write} x reconnectable path {absent, fresh, stale failing once, refusing, accept-then-reset} x 1-3 messages "
                "(%d patterns emitted by TLC, all distinct; non-trivial = at least one fault, counted as all since the no-fault rows fix the baseline), "
                "each on a real FailOverClientTransport over TCPClientTransport and (without cached connection) on a real TCPBackend" % npat)
    with open(trace) as fh:
        ctx.samples = [next(fh).strip() for _ in range(4)]
    ctx.assumptions += ["a write into a connection that is reset afterwards may report either outcome (not judged beyond no crash / no hang / no duplicate)"]
    ctx.trusted += ["TLC 1.8.0", "net.Conn doubles of the harness", "loopback listeners scripted at system-call level"]
    report(ctx, "C20", fails, classfn=lambda f: f["what"] + "/" + " ".join(f["detail"].split(" ")[:3]))
