"""C15 - dialog pins live exactly as long as promised and are forgotten on termination (Pins.tla)."""
import os
import re
from vlib import Infra

LEVEL = "model_checking"


def extract_case(trace, case, out):
    on = False
    with open(trace) as f, open(out, "w") as o:
        for line in f:
            if '"ev":"reset"' in line:
                on = ('"case":"%s"' % case) in line
            if on:
                o.write(line)


def run(ctx, args):
    q = ctx.quick
    ctx.model_check("MC_Pins", "MC_PinsQuick.cfg" if q else "MC_Pins.cfg", timeout=1500)
    ctx.model_check("MC_Pins", "MC_PinsPinned.cfg", expect_violation="Purged")   # the model distinguishes the D10 re-arming rule
    ctx.model_check("MC_Pins", "MC_PinsReach.cfg", expect_violation="Reach_ExpiredPresent")
    beh = os.path.join(ctx.scratch, "pins_behaviours.ndjson")
    ctx.emit("MC_Pins", "MC_PinsSim.cfg", beh, simulate="num=%d" % (40 if q else 400), depth=15, workers=1)
    nbeh = sum(1 for _ in open(beh))
    trace = os.path.join(ctx.scratch, "pins_trace.ndjson")
    rc, out = ctx.run_driver("TestVfPins", env={"VERIF_IN": beh, "VERIF_TRACE": trace,
                                                "VERIF_MAXBEH": 1500 if q else 12000,
                                                "VERIF_NRAND": 60 if q else 600})
    m = re.search(r"VF cases=(\d+) events=(\d+)", out)
    if not m:
        raise Infra("pins driver printed no summary:\n" + out[-2000:])
    ncases = int(m.group(1))
    fails, r = ctx.validate("Trace_Pins", "Trace_Pins.cfg", trace)
    warns = [(w["line"], w["case"], w["what"]) for w in r["warns"]]
    ctx.traces = ncases
    ctx.evaluations = ncases
    ctx.distinct = ncases
    ctx.rule = ("histories of pin/lookup/terminate/time-passes: %d sampled by TLC from MC_Pins (depth 14, every step preceded by 0-3 ticks; "
                "distinct by construction of the random walk - counted as executed cases) and random ones over 1-200 dialogs with 30-80 ms lifetimes, "
                "replayed in real time on a real DialogBasedBackend; non-trivial = at least one pin is established" % nbeh)
    ctx.extra["behaviours_emitted_by_tlc"] = nbeh
    ctx.extra["model_deviation_warnings"] = len(warns)
    with open(trace) as f:
        ctx.samples = [{"trace_prefix": [next(f).strip() for _ in range(8)]}]
    ctx.assumptions += ["the code's time.Now() lies between the two clock readings bracketing each call (monotonic clock)",
                        "an outcome is demanded only when it is the same for every instant of the bracket",
                        "through the loop the pool-vs-pin origin of a dispatch is read from the rr.next hook"]
    ctx.trusted += ["in-package reads of DialogBasedBackend.backends / nextCleanTime", "TLC 1.8.0"]
    for w in warns[:5]:
        print("NOTE: model deviation (property still holds): line %s case %s %s" % w)
    kf_known, kf_new = ctx.classify(fails, lambda f: f["what"])
    for f, k, hit in kf_known:
        ctx.known.append("%s (%s)" % (hit.get("text", k), k)) if ("%s (%s)" % (hit.get("text", k), k)) not in ctx.known else None
    seen = set()
    for f, k, _ in kf_new:
        if f["what"].startswith("DRIVER:"):
            raise Infra("driver problem: %r" % f)
        if f["case"] in seen:
            continue
        seen.add(f["case"])
        if len(seen) <= 3:
            sub = os.path.join(ctx.scratch, "fail_%s.ndjson" % f["case"])
            extract_case(trace, f["case"], sub)
            ctx.violation("case %s line %d: %s" % (f["case"], f["line"], f["what"]), files=[sub], tag=f["case"], data=f)
    ctx.extra["failing_cases"] = len(seen)
    # through the real message loop: INVITE/SUBSCRIBE responses with Expires establish, BYE answered / NOTIFY terminated dissolve
    from c04 import sticky
    from proxyfam import report
    lf = sticky(ctx, "C15", "c15", {"VERIF_NRAND": 10 if q else 80}, "life_trace.ndjson")
    # "the configured dialog timeout": services started from YAML (dialogTimeout key / DEFAULT_DIALOG_TIMEOUT), the effective
    # timeout computed by TLC from the configuration as written (ConfigOps.EffTimeout), probes inside and beyond the lifetime
    ttrace = os.path.join(ctx.scratch, "timeout_wiring_trace.ndjson")
    rc, out = ctx.run_driver("TestVfTimeoutWiring", env={"VERIF_TRACE": ttrace}, timeout=900)
    m = re.search(r"VF cases=(\d+) events=(\d+)", out)
    if not m:
        raise Infra("timeout wiring driver printed no summary:\n" + out[-2000:])
    ctx.traces += int(m.group(1))
    ctx.extra["timeout_wiring_cases"] = int(m.group(1))
    tf, r = ctx.validate("Trace_Sticky", "Trace_Sticky_C15.cfg", ttrace)
    for f in tf:
        f["trace"] = ttrace
    lf += tf
    report(ctx, "C15", lf, classfn=lambda f: f["what"] + "/" + f["detail"])
