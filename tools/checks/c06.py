"""C06 - the proxy inserts itself correctly: one fresh top Via, Record-Route by policy."""
from proxyfam import run_focus
LEVEL = "model_checking"


def run(ctx, args):
    run_focus(ctx, "C06", [("MC_ProxyC06q.cfg", 2, 1)] if ctx.quick else [("MC_ProxyC06t.cfg", 1, 6)],
              reach=("Reach_HopInserted", "Reach_Backend"), driver_env={"VERIF_REPS": 2, "VERIF_FAULTHIST": 8 if ctx.quick else 80}, extra_drivers=[("TestVfWiring", {})],
              rule="requests with 0-3 Via and 0-3 Record-Route entries in every header-line layout and 6 positions of From / Max-Forwards, "
                   "three relaying paths (backend, Route, static route), must-record-route on/off, next hop learned by source / by Via host / through another listener / not learned; plus the YAML wiring driver (services with several listeners, "
                   "one Proxy object per listener: the stamped branch must be fresh across all of them)")
