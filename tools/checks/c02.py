"""C02 - responses follow the Via chain: pop one entry, go to the next (single iteration: MC_Proxy/Trace_Proxy; histories: ReturnPath.tla)."""
import os
import re
from vlib import Infra
from proxyfam import run_focus, report, crash_or_infra
LEVEL = "model_checking"


def run(ctx, args):
    q = ctx.quick
    # the history part of the quantifier: concurrent transactions through backends, any interleaving (closed loop)
    ctx.model_check("ReturnPath", "MC_ReturnPath_TRUE.cfg")
    ctx.model_check("ReturnPath", "MC_ReturnPath_FALSE.cfg")
    beh = os.path.join(ctx.scratch, "loop_behaviours.ndjson")
    ctx.emit("MC_ReturnPath", "MC_ReturnPathSim.cfg", beh, simulate="num=%d" % (300 if q else 5000), depth=16, workers=1)
    trace = os.path.join(ctx.scratch, "loop_trace.ndjson")
    rc, out = ctx.run_driver("TestVfLoop", env={"VERIF_IN": beh, "VERIF_TRACE": trace, "VERIF_MAXBEH": 300 if q else 5000}, timeout=1500, allow_fail=True)
    if rc != 0:
        crash_or_infra(ctx, "C02", out)
        return
    m = re.search(r"VF cases=(\d+) events=(\d+)", out)
    if not m:
        raise Infra("loop driver printed no summary:\n" + out[-2000:])
    loops = int(m.group(1))
    lfails, r = ctx.validate("Trace_ReturnPath", "Trace_ReturnPath.cfg", trace)
    for f in lfails:
        f["trace"] = trace
    ctx.extra["closed_loop_histories"] = loops
    # the TCP half of the return path: the hop the request came from is the CONNECTION it used (same driver as C12)
    abeh = os.path.join(ctx.scratch, "affinity_behaviours.ndjson")
    ctx.emit("MC_Affinity", "MC_AffinitySim.cfg", abeh, simulate="num=%d" % (40 if q else 600), depth=16, workers=1)
    atrace = os.path.join(ctx.scratch, "affinity_trace.ndjson")
    rc, out = ctx.run_driver("TestVfAffinity", env={"VERIF_IN": abeh, "VERIF_TRACE": atrace, "VERIF_MAXBEH": 40 if q else 600, "VERIF_NRAND": 6 if q else 60}, timeout=1500, allow_fail=True)
    if rc != 0:
        crash_or_infra(ctx, "C02", out)
        return
    afails, r = ctx.validate("Trace_Affinity", "Trace_Affinity_C02.cfg", atrace)
    for f in afails:
        f["trace"] = atrace
    lfails += afails
    if lfails:
        report(ctx, "C02", lfails, classfn=lambda f: f["what"])
    run_focus(ctx, "C02", [("MC_ProxyC02.cfg", 1, 1)], reach=("Reach_RespRelay", "Reach_RespDrop"),
              driver_env={"VERIF_REPS": 3 if ctx.quick else 8},
              rule="responses with 1-4 Via entries in every mix of comma-separated and repeated lines, entry shapes {port +/-, received, received+rport, rport alone, valueless rport}, "
                   "transports UDP/TCP/TLS/SCTP, status 100-603, compact/odd-case names; plus closed-loop histories (ReturnPath.tla: 3 concurrent transactions, shapes of source / sent-by / rport / "
                   "spoofed received / deeper Via, provisional and final responses in TLC-generated interleavings, received-support on and off)")
    ctx.traces += loops
