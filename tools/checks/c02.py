"""C02 - responses follow the Via chain: pop one entry, go to the next."""
from proxyfam import run_focus
LEVEL = "model_checking"


def run(ctx, args):
    run_focus(ctx, "C02", [("MC_ProxyC02.cfg", 1, 1)], reach=("Reach_RespRelay", "Reach_RespDrop"),
              driver_env={"VERIF_REPS": 3 if ctx.quick else 8},
              rule="responses with 1-4 Via entries in every mix of comma-separated and repeated lines, entry shapes {port +/-, received, received+rport, rport alone, valueless rport}, "
                   "transports UDP/TCP/TLS/SCTP, status 100-603, compact/odd-case names")
