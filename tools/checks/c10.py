"""C10 - a UDP datagram is processed in isolation from every other datagram (UdpBuf.tla)."""
import os
import re
from vlib import Infra
from proxyfam import report, crash_or_infra

LEVEL = "model_checking"


def run(ctx, args):
    q = ctx.quick
    beh = os.path.join(ctx.scratch, "udp_sequences.ndjson")
    ctx.emit("MC_UdpBuf", "MC_UdpBuf3.cfg" if q else "MC_UdpBuf4.cfg", beh, count=True, timeout=1500)
    ctx.model_check("MC_UdpBuf", "MC_UdpBufWhole.cfg", expect_violation="Isolation")     # decoding the whole recycled buffer (pinned) violates it
    ctx.model_check("MC_UdpBuf", "MC_UdpBufReach1.cfg", expect_violation="Reach_StaleVisible")
    ctx.model_check("MC_UdpBuf", "MC_UdpBufReach2.cfg", expect_violation="Reach_Recycled")
    nbeh = len(set(open(beh).read().splitlines()))
    trace = os.path.join(ctx.scratch, "udp_trace.ndjson")
    rc, out = ctx.run_driver("TestVfUdp", env={"VERIF_IN": beh, "VERIF_TRACE": trace, "VERIF_STRIDE": 1 if q else 2, "VERIF_NRAND": 40 if q else 600}, timeout=3000, allow_fail=True)
    if rc != 0:
        crash_or_infra(ctx, "C10", out)
        return
    m = re.search(r"VF cases=(\d+) events=(\d+)", out)
    if not m:
        raise Infra("udp driver printed no summary:\n" + out[-2000:])
    ctx.traces = int(m.group(1))
    fails, r = ctx.validate("Trace_Udp", "Trace_Udp.cfg", trace, timeout=3000)
    for f in fails:
        f["trace"] = trace
    # isolation at the level of what is relayed: the very same datagram processed again is handled as the first time
    rtrace = os.path.join(ctx.scratch, "udp_repeat_trace.ndjson")
    rc, out = ctx.run_driver("TestVfUdpRepeat", env={"VERIF_TRACE": rtrace, "VERIF_NROUND": 6 if q else 60, "VERIF_NREPEAT": 3 if q else 5}, timeout=1500)
    m2 = re.search(r"VF cases=(\d+) events=(\d+)", out)
    if not m2:
        raise Infra("udp repeat driver printed no summary:\n" + out[-2000:])
    ctx.traces += int(m2.group(1))
    ctx.extra["repeated_datagram_cases"] = int(m2.group(1))
    rf, r2 = ctx.validate("Trace_Twin", "Trace_Twin_C10.cfg", rtrace, timeout=1500)
    for f in rf:
        f["trace"] = rtrace
    fails += rf
    ctx.evaluations = int(m.group(2)) + int(m2.group(2))
    ctx.distinct = nbeh
    ctx.rule = ("datagram sequences: all %d sequences of %d datagrams over 6 classes (small / large, declared body exact / larger / much larger / smaller, cut in the headers) emitted by TLC from MC_UdpBuf "
                "(every interleaving of Alloc/Recv/Parse/Free is model-checked), sent to a real UDPServerTransport, plus random sequences of 3-62 datagrams (20 B - 60 KiB, any cut offset) from 1-3 sockets; non-trivial = all"
                % (nbeh, 3 if q else 4))
    with open(trace) as fh:
        ctx.samples = [next(fh).strip()[:800] for _ in range(6)]
    ctx.assumptions += ["a datagram dropped by the kernel before udp.recv is not charged to the proxy", "every body byte encodes its datagram (provenance)",
                        "delivered messages are serialised only after the whole burst"]
    ctx.trusted += ["TLC 1.8.0", "pool.* / udp.* hooks for buffer identities"]
    report(ctx, "C10", fails, classfn=lambda f: f["what"] + "/" + " ".join(f["detail"].split(" ")[1:3]))
