"""C17 - header spelling and list layout do not change what the proxy does (metamorphic twin relation)."""
import os
import re
from vlib import Infra
from proxyfam import report, crash_or_infra

LEVEL = "model_checking"


def run(ctx, args):
    q = ctx.quick
    fails = []
    total = 0
    for cfg, stride in ((("MC_ProxyC17reqq.cfg", 5), ("MC_ProxyC17resp.cfg", 2)) if q else (("MC_ProxyC17req.cfg", 2), ("MC_ProxyC17resp.cfg", 1))):
        beh = os.path.join(ctx.scratch, "recipes_%s.ndjson" % cfg)
        # leg M: the line-level operators of the model commute with regrouping (TwinOK) on every recipe; and emission
        ctx.emit("MC_Proxy", cfg, beh, count=True, timeout=1800)
        total += len(set(open(beh).read().splitlines()))
        trace = os.path.join(ctx.scratch, "twin_%s.ndjson" % cfg)
        rc, out = ctx.run_driver("TestVfTwin", env={"VERIF_IN": beh, "VERIF_TRACE": trace, "VERIF_STRIDE": stride, "VERIF_REPS": 2, "VERIF_HARD": 1},
                                 timeout=3000, allow_fail=True)
        if rc != 0:
            crash_or_infra(ctx, "C17", out)
            return
        m = re.search(r"VF cases=(\d+) events=(\d+)", out)
        if not m:
            raise Infra("twin driver printed no summary:\n" + out[-2000:])
        ctx.traces += int(m.group(1))
        fs, r = ctx.validate("Trace_Twin", "Trace_Twin.cfg", trace, timeout=3000)
        for f in fs:
            f["trace"] = trace
        fails += fs
        if not ctx.samples:
            with open(trace) as fh:
                ctx.samples = [next(fh).strip()[:3000]]
    ctx.evaluations = ctx.traces
    ctx.distinct = total
    ctx.rule = ("pairs of twins: every recipe of the request universe (Route/Via/Record-Route lists of up to 3 entries in every layout, %d header orders, all relaying paths) and of the "
                "response universe (11 Via shapes x layouts), each rendered once and then respelled (canonical / compact / upper / lower / random case per header) and re-laid-out "
                "(lists split and joined at random); %d recipes; non-trivial = all" % (4 if q else 7, total))
    ctx.assumptions += ["both proxies have the same configuration and the same history (the recipe's learning requests)",
                        "nothing is compared with an expectation - only the twins with each other"]
    ctx.trusted += ["TLC 1.8.0", "alpha of the harness (canonical-name table written from RFC 3261, independent of the repository's)"]
    report(ctx, "C17", fails, classfn=lambda f: f["what"])


def extract(trace, line):
    with open(trace) as f:
        for i, l in enumerate(f, 1):
            if i == line:
                return l
    return ""
