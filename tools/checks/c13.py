"""C13 - Route handling: consume own entry only, keep or strip next hop as configured."""
from proxyfam import run_focus
LEVEL = "model_checking"


def run(ctx, args):
    run_focus(ctx, "C13", [("MC_ProxyC13q.cfg" if ctx.quick else "MC_ProxyC13t.cfg", 1, 3), ("MC_ProxyC13long.cfg", 3, 1)],
              reach=("Reach_OwnConsumed",), driver_env={"VERIF_HARD": 1, "VERIF_REPS": 3}, extra_drivers=[("TestVfKeepWiring", {}), ("TestVfHostsWiring", {})],
              rule="Route sets of 0-%d entries in every header-line layout (and, over a smaller vocabulary of entries, of up to 6 entries in every one of the up to 32 layouts), first entry in {listener by address, by alias, alias without port, "
                   "right host wrong port, right port foreign host, listener of another entry, foreign hops}, keep-next-hop-route on/off, listener port 5060/5070; "
                   "entries decorated with display names, URI parameters with and without values, header parameters; plus the configuration wiring: startProxy from YAML with "
                   "keepNextHopRoute spelled true / yes / 1 / on / t / y / YES / On / tRuE / Y, false / no / 0 / off / empty / other, absent with and without the KEEP_NEXT_HOP_ROUTE environment variable; and the alias tables: a listener alias declared in the top-level hosts table, in the service's, or in both with equal / different addresses" % (3 if ctx.quick else 4))
