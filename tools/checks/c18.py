"""C18 - static route lookup has fixed precedence and a stable answer (StaticOps.tla)."""
import os
import re
from vlib import Infra

LEVEL = "model_checking"


def run(ctx, args):
    q = ctx.quick
    beh = os.path.join(ctx.scratch, "static_cases.ndjson")
    # Leg M (+ emission): operational three-phase lookup vs declarative precedence on every table/host of the universe
    ctx.emit("MC_Static", "MC_Static3.cfg" if q else "MC_Static4.cfg", beh, count=True)
    for r in ("Reach_Overlap", "Reach_DefaultOnly", "Reach_None"):
        ctx.model_check("MC_Static", "MC_Static_%s.cfg" % r, expect_violation=r)
    nbeh = sum(1 for _ in open(beh))
    trace = os.path.join(ctx.scratch, "static_trace.ndjson")
    rc, out = ctx.run_driver("TestVfStatic", env={"VERIF_IN": beh, "VERIF_TRACE": trace, "VERIF_NRAND": 300 if q else 3000})
    m = re.search(r"VF cases=(\d+) events=(\d+)", out)
    if not m:
        raise Infra("static driver printed no summary:\n" + out[-2000:])
    ncases = int(m.group(1))
    fails, r = ctx.validate("Trace_Static", "Trace_Static.cfg", trace)
    warns = [(w["line"], w["case"], w["what"]) for w in r["warns"]]
    ctx.traces = ncases
    ctx.evaluations = ncases * 150
    ctx.distinct = nbeh
    ctx.exhaustive = True
    ctx.rule = ("every route table of up to %d entries over 7 patterns (literals, '*.x', 'a.*', '*', 'default', dotted look-alike) x 8 hosts emitted by TLC "
                "(%d distinct (table, host) pairs) plus random tables of 3-12 entries; each lookup repeated 50 times on 3 objects built from YAML; "
                "non-trivial = all (every pair exercises the precedence rule)" % (3 if q else 4, nbeh))
    ctx.extra["model_deviation_warnings"] = len(warns)
    with open(trace) as f:
        ctx.samples = [next(f).strip() for _ in range(3)]
    ctx.assumptions += ["patterns contain only letters, digits, '.', '*', '-'; patterns of a table are pairwise distinct",
                        "symbol-to-label concretisation preserves matching (labels over disjoint letters)"]
    ctx.trusted += ["TLC 1.8.0", "YAML generation in the driver"]
    for w in warns[:3]:
        print("NOTE: model deviation (property still holds): line %s case %s %s" % w)
    lines = open(trace).read().splitlines()
    shown = 0
    classes = {}
    for f in fails:
        classes.setdefault(f["what"], []).append(f)
    for what, fs in classes.items():
        for f in fs[:2]:
            p = os.path.join(ctx.scratch, "case_%s.json" % f["case"])
            open(p, "w").write(lines[f["line"] - 1] + "\n")
            ctx.violation("%s: case %s (%d cases of this class)" % (what, f["case"], len(fs)), files=[p], tag=f["case"], data=f)
