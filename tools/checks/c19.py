"""C19 - the backend rotation follows name resolution, with bounded failure tolerance (ResolverOps.tla)."""
import os
import re
from vlib import Infra
from proxyfam import report, crash_or_infra

LEVEL = "model_checking"


def run(ctx, args):
    q = ctx.quick
    beh = os.path.join(ctx.scratch, "resolver_sequences.ndjson")
    ctx.emit("MC_Resolver", "MC_Resolver5.cfg", beh, count=True)           # leg M: counters == declarative contribution on all 9^5 sequences
    if not q:
        ctx.model_check("MC_Resolver", "MC_Resolver6noemit.cfg", timeout=1200)
    ctx.model_check("MC_Resolver", "MC_ResolverReach.cfg", expect_violation="Reach_Emptied")
    nbeh = sum(1 for _ in open(beh))
    trace = os.path.join(ctx.scratch, "resolver_trace.ndjson")
    rc, out = ctx.run_driver("TestVfResolver", env={"VERIF_IN": beh, "VERIF_TRACE": trace, "VERIF_STRIDE": 20 if q else 1, "VERIF_NRAND": 40 if q else 400},
                             timeout=3000, allow_fail=True)
    if rc != 0:
        crash_or_infra(ctx, "C19", out)
        return
    m = re.search(r"VF cases=(\d+) events=(\d+)", out)
    if not m:
        raise Infra("resolver driver printed no summary:\n" + out[-2000:])
    ctx.traces = int(m.group(1))
    fails, r = ctx.validate("Trace_Resolver", "Trace_Resolver.cfg", trace, timeout=3000)
    for f in fails:
        f["trace"] = trace
    ctx.evaluations = int(m.group(2))
    ctx.distinct = nbeh if not q else ctx.traces
    ctx.exhaustive = not q
    ctx.rule = ("all %d sequences of 5 resolution outcomes over the subsets of 3 addresses and failure emitted by TLC (quick: every 20th; thorough: all), alternating udp / tcp backends, plus random sequences "
                "up to length 60 over 5-7 addresses with one or two host names feeding the same rotation; quiescence between steps; non-trivial = at least one success (counted: all executed)" % nbeh)
    with open(trace) as fh:
        ctx.samples = [next(fh).strip() for _ in range(5)]
    ctx.assumptions += ["outcomes are injected at addressResolved (the DNS lookup is the environment)", "two names never share an address", "quiescence between steps (property assumption)"]
    ctx.trusted += ["TLC 1.8.0", "res.notified / rr.add / rr.rm / loop.bev hooks for quiescence"]
    report(ctx, "C19", fails, classfn=lambda f: f["what"] + "/" + f["detail"])
