"""C08 - no network input can crash, wedge or balloon the proxy (Robust.tla; model-directed enumeration of hostile classes + seeded mutation)."""
import json
import os
import re
from vlib import Infra, panic_site
from proxyfam import report

LEVEL = "exploration"


def run(ctx, args):
    q = ctx.quick
    beh = os.path.join(ctx.scratch, "hostile_classes.ndjson")
    ctx.emit("MC_Robust", "MC_Robust.cfg", beh, count=True, timeout=1500)       # leg M: with every partial operation guarded no class reaches crash / balloon
    if not q:
        ctx.model_check("MC_Robust", "MC_RobustPinned.cfg", expect_violation="NeverCrash", timeout=1500)   # the pinned guards (D12a/b) do
    hist = os.path.join(ctx.scratch, "hostile_histories.ndjson")
    ctx.emit("MC_RobustHist", "MC_RobustHist.cfg", hist, count=True, timeout=1500)     # leg M: no out-of-protocol history of <= 3 messages reaches a crash
    ctx.model_check("MC_RobustHist", "MC_RobustHistPinned.cfg", expect_violation="NeverCrash")   # ... unless a stray response may store a pin without a backend
    ctx.hist = hist
    ncls = len(set(open(beh).read().splitlines()))
    crashes = []
    allfails = []
    ncases = 0
    for recv in (1, 0):
        ncases += crash_loop(ctx, q, beh, recv, crashes, allfails)
    finish(ctx, q, ncls, ncases, crashes, allfails)


def crash_loop(ctx, q, beh, recv, crashes, allfails):
    skipf = os.path.join(ctx.scratch, "robust_skip_%d.txt" % recv)
    open(skipf, "w").close()
    ncases = 0
    for attempt in range(10):
        trace = os.path.join(ctx.scratch, "robust_trace_%d_%d.ndjson" % (recv, attempt))
        cur = os.path.join(ctx.scratch, "robust_current.json")
        if os.path.exists(cur):
            os.remove(cur)
        rc, out = ctx.run_driver("TestVfRobust", env={"VERIF_IN": beh, "VERIF_TRACE": trace, "VERIF_SKIP": skipf, "VERIF_STRIDE": 8 if q else 1, "VERIF_RECV": recv, "VERIF_HIST": ctx.hist if recv else "", "VERIF_HIST_STRIDE": 100 if q else 5,
                                                      "VERIF_NMUT": (2500 if q else 60000) if recv else (500 if q else 10000)}, timeout=3000, allow_fail=True)
        if rc == 0:
            m = re.search(r"VF cases=(\d+) events=(\d+)", out)
            if not m:
                raise Infra("robust driver printed no summary:\n" + out[-2000:])
            ncases += int(m.group(1))
            fails, r = ctx.validate("Trace_Robust", "Trace_Robust.cfg", trace)
            for f in fails:
                f["trace"] = trace
            allfails += fails
            with open(trace) as fh:
                ctx.samples = [next(fh).strip() for _ in range(3)]
            break
        if "VF-INFRA" in out:
            raise Infra("robust driver self-check failed:\n" + out[-3000:])
        m = re.search(r"^(panic: .*|fatal error: .*)$", out, re.M)
        if not m or not os.path.exists(cur):
            raise Infra("robust driver failed without a panic:\n" + out[-4000:])
        c = json.load(open(cur))
        ps = panic_site(out, ctx.srcdir())
        if not ps or not ps[2]:
            raise Infra("robust driver died outside the repository's code:\n" + out[-4000:])
        crashes.append({"case": "recv%d-" % recv + c["case"], "cls": c.get("cls", ""), "panic": m.group(1)[:160], "site": "%s:%s" % (ps[0], ps[1]), "hex": c["hex"][:4000], "out": out[-6000:]})
        with open(skipf, "a") as f:
            if c.get("cls", "").startswith("kind="):
                pairs = [x for x in c["cls"].split(" ") if not x.endswith("=ok") and not x.endswith("=none") and not x.startswith(("kind=", "tr="))]
                f.write(",".join(pairs or ["case=" + c["case"]]) + "\n")
            elif c.get("cls", "").startswith("history"):
                f.write("NOHIST\n")      # one crashing history is the verdict; the remaining histories are not run in this pass
            else:
                f.write(c["case"].split("#")[0] + "\n")
    else:
        # ten crashing inputs found and skipped one after the other: that is the verdict (reported by finish()); the
        # remaining cases of this pass are not run
        print("NOTE: more than 10 distinct crashing inputs - the rest of this pass was not run")
    return ncases


def finish(ctx, q, ncls, ncases, crashes, allfails):
    ctx.traces = ncases
    ctx.evaluations = ncases + len(crashes)
    ctx.distinct = ncls
    ctx.rule = ("hostile field-class combinations (at most two hostile fields of: start line, Content-Length {missing, negative, 2^31, 2^62, non-numeric, larger, smaller}, Via {missing, empty host, '[', '[]', huge, "
                "no branch, bad port, 1000 entries}, Route/From/To/CSeq, Request-URI, 5000 headers / parameters) x request/response x UDP/TCP: %d classes emitted by TLC from MC_Robust (quick runs every class with a single hostile field and every 8th pair), plus seeded byte-level mutation of a corpus (bit flips, truncations, splices, duplicated lines, edited numbers, blown-up tokens) in batches; "
                "non-trivial = at least one hostile field (all but one class)" % ncls)
    ctx.extra["crashing_inputs"] = len(crashes)
    ctx.assumptions += ["coverage-guided fuzzing is a different technique family and is not used: the byte-level half of the quantifier is covered by seeded mutation only",
                        "stall is judged with a sentinel within 5 s (three tries) on loopback"]
    ctx.trusted += ["TLC 1.8.0", "runtime.MemStats.TotalAlloc deltas"]
    # the same kind of input on SEVERAL listeners of one service at once (a service started by startProxy has one message loop per
    # listener; every request names a To host never seen before): the process must survive.  Delivery accounting under
    # concurrency is C09's business - here only "does not panic or exit".
    rc, out = ctx.run_driver("TestVfStress", env={"VERIF_MODE": "probe", "VERIF_HANG_S": 0, "VERIF_TRACE": os.path.join(ctx.scratch, "c08_listeners.ndjson"), "VERIF_PER": 200 if q else 1000},
                             timeout=1500, allow_fail=True)
    if rc != 0:
        if "VF-INFRA" in out:
            raise Infra("stress driver self-check failed:\n" + out[-3000:])
        m = re.search(r"^(fatal error: .*|panic: .*)$", out, re.M)
        ps = panic_site(out, ctx.srcdir())
        if not (m and ps and ps[2]):
            raise Infra("stress driver failed:\n" + out[-4000:])
        p = os.path.join(ctx.scratch, "crash_listeners.txt")
        open(p, "w").write(out[-8000:])
        ctx.violation("the proxy died while several of its listeners received traffic at once: %s (%s:%s)" % (m.group(1)[:200], ps[0], ps[1]), files=[p], tag="crash-listeners")
    ctx.evaluations += 1
    # crashes: class = panic site
    cf = [{"line": 0, "case": c["case"], "what": "P:C08:panic-or-exit", "detail": c["site"] + " " + c["panic"], "trace": None, "crash": c} for c in crashes]
    known, new = ctx.classify(cf, lambda f: "crash:" + f["crash"]["site"].split(":")[0])
    for f, k, hit in known:
        t = "%s [%s]" % (hit.get("text", ""), hit.get("match", k))
        if t not in ctx.known:
            ctx.known.append(t)
    for f, k, _ in new:
        p = os.path.join(ctx.scratch, "crash_%s.json" % re.sub(r"\W", "_", f["case"]))
        json.dump(f["crash"], open(p, "w"), indent=1)
        ctx.violation("the proxy crashed: %s at %s while processing %s" % (f["crash"]["panic"], f["crash"]["site"], f["case"]), files=[p], tag="crash-" + f["case"])
    report(ctx, "C08", allfails, classfn=lambda f: f["what"] + "/" + (" ".join(x for x in f["detail"].split(" ") if not x.endswith("=ok") and not x.endswith("=none"))[:80]))
