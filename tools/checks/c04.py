"""C04 - in-dialog requests stick to the backend that answered the dialog (Sticky.tla)."""
import os
import re
from vlib import Infra
from proxyfam import report, crash_or_infra

LEVEL = "model_checking"


def sticky(ctx, focus, mode, env, trace_name):
    trace = os.path.join(ctx.scratch, trace_name)
    e = {"VERIF_TRACE": trace, "VERIF_MODE": mode}
    e.update(env)
    rc, out = ctx.run_driver("TestVfSticky", env=e, timeout=1800, allow_fail=True)
    if rc != 0:
        crash_or_infra(ctx, focus, out)
        return []
    m = re.search(r"VF cases=(\d+) events=(\d+)", out)
    if not m:
        raise Infra("sticky driver printed no summary:\n" + out[-2000:])
    ctx.traces += int(m.group(1))
    fails, r = ctx.validate("Trace_Sticky", "Trace_Sticky_%s.cfg" % focus, trace)
    for f in fails:
        f["trace"] = trace
    ctx.extra["model_deviation_warnings"] = ctx.extra.get("model_deviation_warnings", 0) + len(r["warns"])
    for w in r["warns"][:3]:
        print("NOTE: model deviation (mechanism beneath the listed property): line %s case %s %s [%s]" % (w["line"], w["case"], w["what"], w.get("detail", "")[:80]))
    if not ctx.samples:
        with open(trace) as fh:
            ctx.samples = [next(fh).strip()[:2500] for _ in range(3)]
    return fails


def run(ctx, args):
    q = ctx.quick
    ctx.model_check("MC_Sticky", "MC_Sticky.cfg" if q else "MC_Sticky10.cfg", timeout=1500)
    ctx.model_check("MC_Sticky", "MC_StickyPinned.cfg", expect_violation="Sticky")     # the method-name exclusion (D17) violates it
    ctx.model_check("MC_Sticky", "MC_StickyPurge.cfg", expect_violation="StickyStep")   # a purge that evicts live pins (due after a long uptime) violates it
    ctx.model_check("MC_Sticky", "MC_StickyExpires.cfg", expect_violation="StickyStep")  # a pin table that ignores the Expires of the establishing response violates it
    ctx.model_check("MC_Sticky", "MC_StickyReject.cfg", expect_violation="StickyStep")      # releasing the pin when an INVITE of the established dialog is rejected violates it
    ctx.model_check("MC_Sticky", "MC_StickyReach.cfg", expect_violation="Reach_PinnedAfterRotation")
    ctx.model_check("MC_Sticky", "MC_StickyReachLong.cfg", expect_violation="Reach_LongSurvives")
    ctx.model_check("MC_Sticky", "MC_StickyReachTx.cfg", expect_violation="Reach_TxAttributed")
    ctx.model_check("MC_Sticky", "MC_StickyReachStray.cfg", expect_violation="Reach_StrayUnpins")   # documented observation: an answer from another address releases the pin   # a dialog pinned through the transaction binding is reachable
    beh = os.path.join(ctx.scratch, "sticky_behaviours.ndjson")
    ctx.emit("MC_Sticky", "MC_StickySim.cfg", beh, simulate="num=%d" % (15 if q else 150), depth=13, workers=1)
    nbeh = sum(1 for _ in open(beh))
    fails = sticky(ctx, "C04", "c04", {"VERIF_IN": beh, "VERIF_MAXBEH": 400 if q else 5000, "VERIF_NRAND": 30 if q else 300}, "sticky_trace.ndjson")
    # the same through the real UDP listener of a service started from YAML (receive / parser goroutines in front of the loop)
    wtrace = os.path.join(ctx.scratch, "sticky_wire_trace.ndjson")
    rc, out = ctx.run_driver("TestVfStickyWire", env={"VERIF_TRACE": wtrace, "VERIF_NDIALOG": 12 if q else 100}, timeout=1500)
    m = re.search(r"VF cases=(\d+) events=(\d+)", out)
    if not m:
        raise Infra("sticky wire driver printed no summary:\n" + out[-2000:])
    ctx.traces += int(m.group(1))
    ctx.extra["real_listener_dialogs"] = int(m.group(1))
    wf, r = ctx.validate("Trace_Sticky", "Trace_Sticky_C04.cfg", wtrace)
    for f in wf:
        f["trace"] = wtrace
    fails += wf
    ctx.evaluations = ctx.traces
    ctx.distinct = ctx.traces
    ctx.rule = ("histories of {initial INVITE, tagged 1xx/2xx from the chosen backend, in-dialog requests of 10 methods in both directions, unrelated traffic, "
                "backend-issued SUBSCRIBE answered, BYE answered, NOTIFY terminated, a long uptime, a dialog timeout passing while dialogs established with a larger Expires live on}: %d sampled by TLC from MC_Sticky (3 dialogs x 3 backends, depth 12) and random ones "
                "over 1-50 concurrent dialogs and 2-6 backends (tags with '-', equal From/To URIs, tel: URIs); each history is one case; non-trivial = at least one dialog answered" % nbeh)
    ctx.extra["behaviours_emitted_by_tlc"] = nbeh
    ctx.assumptions += ["responses of a backend are injected with the backend's configured source address", "within the dialog lifetime (1200 s; in the histories where a dialog timeout passes: 70-130 ms in real time, a claim is made only when the bracketing clock readings put the step surely inside max(timeout, Expires)); a long uptime since the last purge of the pin table is set up by moving the table's purge clock into the past",
                        "pool-vs-pin origin of a dispatch is read from the rr.next hook"]
    ctx.trusted += ["TLC 1.8.0", "alpha of the harness", "Backend doubles"]
    report(ctx, "C04", fails, classfn=lambda f: f["what"] + "/" + f["detail"])
