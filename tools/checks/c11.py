"""C11 - TCP framing depends on the bytes, not on how the stream is segmented (Framing.tla)."""
import os
import re
from vlib import Infra
from proxyfam import report, crash_or_infra

LEVEL = "model_checking"


def run(ctx, args):
    q = ctx.quick
    beh = os.path.join(ctx.scratch, "framing_pairs.ndjson")
    # leg M: the windowed reader with the first fragment copied satisfies SegInd under every single/double (thorough: triple) cut; and emission
    ctx.emit("MC_Framing", "MC_Framing_TRUE.cfg" if q else "MC_Framing_TRUE3.cfg", beh, count=True, deadlock=False, timeout=1500)
    ctx.model_check("MC_Framing", "MC_Framing_FALSE.cfg", expect_violation="SegInd", deadlock=False)     # the pinned step order of readLine (alias kept across a refill)
    ctx.model_check("MC_Framing", "MC_FramingReach.cfg", expect_violation="Reach_LongLine", deadlock=False)
    nbeh = len(set(open(beh).read().splitlines()))
    trace = os.path.join(ctx.scratch, "framing_trace.ndjson")
    rc, out = ctx.run_driver("TestVfFraming", env={"VERIF_IN": beh, "VERIF_TRACE": trace, "VERIF_NSHORT": 4 if q else 30, "VERIF_NLONG": 60 if q else 800,
                                                   "VERIF_NTCP": 8 if q else 60}, timeout=3000, allow_fail=True)
    if rc != 0:
        crash_or_infra(ctx, "C11", out)
        return
    m = re.search(r"VF cases=(\d+) events=(\d+) runs=(\d+)", out)
    if not m:
        raise Infra("framing driver printed no summary:\n" + out[-2000:])
    ctx.traces = int(m.group(3))
    fails, r = ctx.validate("Trace_Framing", "Trace_Framing.cfg", trace, timeout=3000)
    for f in fails:
        f["trace"] = trace
    ctx.evaluations = int(m.group(3))
    ctx.distinct = nbeh
    ctx.rule = ("(stream, segmentation) pairs: %d emitted by TLC from MC_Framing (9 streams over line classes short / window-1 / window / window+1 / multi-window, bodies that look like SIP text, keep-alives; "
                "every single and double%s cut), expanded to 1 KiB per symbol so that the model window is bufio's 4096 bytes, CRLF and LF; plus short sequences under every single and double BYTE cut, "
                "long sequences (lines to 20 KiB, bodies to 60 KiB, 1-8 messages) under random multi-cuts down to 1-byte segments, and real TCP; non-trivial = all" % (nbeh, "" if q else " and triple"))
    with open(trace) as fh:
        ctx.samples = [next(fh).strip()[:1500] for _ in range(2)]
    ctx.assumptions += ["only well-formed concatenations (every message has Content-Length); keep-alives are CRLF only",
                        "the expectation is built from the generator's structured messages, not by re-parsing"]
    ctx.trusted += ["TLC 1.8.0", "interning of start lines / header values / bodies"]
    report(ctx, "C11", fails, classfn=lambda f: f["what"] + "/" + f["detail"].split(" ")[0])
