"""C05 - unpinned requests rotate evenly over the backends registered right now (Pool.tla)."""
import os
import re

LEVEL = "model_checking"


def run(ctx, args):
    q = ctx.quick
    # Leg M: the design satisfies the declarative properties on every bounded history / interleaving
    ctx.model_check("MC_Pool", "MC_PoolSeq.cfg", coverage=not q)
    ctx.model_check("MC_Pool", "MC_PoolConc.cfg")
    ctx.model_check("MC_Pool", "MC_PoolLive.cfg")          # liveness under weak fairness: every started dispatch completes (no state constraint)
    ctx.prove("PoolProofs")                                # unbounded (TLAPS): the cursor stays in range, a dispatch over a non-empty list reaches a member
    ctx.model_check("MC_Pool", "MC_PoolReach1.cfg", expect_violation="Reach_RaceEmpty")
    ctx.model_check("MC_Pool", "MC_PoolReach2.cfg", expect_violation="Reach_StaleIdx")
    # Leg R: every add/remove/dispatch sequence up to the bound, emitted by TLC
    beh = os.path.join(ctx.scratch, "pool_behaviours.ndjson")
    r = ctx.emit("MC_Pool", "MC_PoolEmit6.cfg" if q else "MC_PoolEmit7.cfg", beh)
    nbeh = sum(1 for _ in open(beh))
    trace = os.path.join(ctx.scratch, "pool_trace.ndjson")
    rc, out = ctx.run_driver("TestVfPool", env={"VERIF_IN": beh, "VERIF_TRACE": trace,
                                                "VERIF_NRAND": 20 if q else 300,
                                                "VERIF_NCONC": 4 if q else 24,
                                                "VERIF_CONC_DISP": 300 if q else 1500})
    m = re.search(r"VF cases=(\d+) events=(\d+)", out)
    if not m:
        raise __import__("vlib").Infra("pool driver printed no summary:\n" + out[-2000:])
    ncases = int(m.group(1))
    # Leg T: TLC judges every step of every execution
    fails, r = ctx.validate("Trace_Pool", "Trace_Pool.cfg", trace)
    warns = [(w["line"], w["case"], w["what"]) for w in r["warns"]]
    ctx.traces = ncases
    ctx.evaluations = ncases
    ctx.distinct = nbeh
    ctx.exhaustive = True
    ctx.rule = ("every add/remove/dispatch sequence of length %d over 4 addresses emitted by TLC (%d behaviours, each distinct by construction; "
                "non-trivial = contains at least one dispatch or membership change, i.e. all) replayed on a real RoundRobinBackend; plus random "
                "sequences up to length 400 over 5 addresses and goroutines racing with membership changes (GOMAXPROCS 1,2,4,16)" % (6 if q else 7, nbeh))
    ctx.extra["model_deviation_warnings"] = len(warns)
    ctx.extra["behaviours_emitted_by_tlc"] = nbeh
    with open(trace) as f:
        head = [next(f).strip() for _ in range(12)]
    ctx.samples = [{"trace_prefix": head}]
    ctx.assumptions += ["Backend doubles never fail; addresses are never added while present (property domain)",
                        "under races only MemberAtLin / DeliveredIsChosen / drop-only-when-empty are claimed (not Window)"]
    ctx.trusted += ["rr.* hooks are emitted inside the pool mutex (order of critical sections)", "TLC 1.8.0"]
    for w in warns[:5]:
        print("NOTE: model deviation (property still holds): line %s case %s %s" % w)
    seen = set()
    for f in fails:
        if f["what"].startswith("DRIVER:"):
            raise __import__("vlib").Infra("driver broke the property's domain: %r" % f)
        if f["case"] in seen:
            continue
        seen.add(f["case"])
        if len(seen) <= 3:
            sub = os.path.join(ctx.scratch, "fail_%s.ndjson" % f["case"])
            extract_case(trace, f["case"], sub)
            ctx.violation("case %s line %d: %s" % (f["case"], f["line"], f["what"]), files=[sub], tag=f["case"], data=f)
    if fails and not ctx.violations:
        ctx.violation("%d cases failed" % len(seen))


def extract_case(trace, case, out):
    on = False
    with open(trace) as f, open(out, "w") as o:
        for line in f:
            if '"ev":"reset"' in line:
                on = ('"case":"%s"' % case) in line
            if on:
                o.write(line)
