#!/bin/bash
# benignall.sh <par> name... : every stored behaviour-preserving change (benign/<name>/patch.diff) against ALL checks; one summary line each
P=$1; shift
cd "$(dirname "$0")/.."
for n in "$@"; do
  tools/benigntest.py benign/$n $n --par $P 2>&1 | grep -E "^(BENIGN|CHECK|suite|DOES)" | cut -c1-400
done
