#!/usr/bin/env python3
"""matrix.py [ids...] - run every quick check against every seeded change (scratch copy + patch, VERIF_REPO); writes seeded/MATRIX.json.
Cell: 1 = VIOLATION, 0 = OK (or only KNOWN-FINDING), 2 = infrastructure error."""
import json, os, shutil, subprocess, sys, tempfile, concurrent.futures as cf
V = os.path.dirname(os.path.dirname(os.path.abspath(__file__)))
checks = [c["property_id"] for c in json.load(open(os.path.join(V, "MANIFEST.json")))["checks"]]
seeds = sorted(d for d in os.listdir(os.path.join(V, "seeded")) if os.path.isdir(os.path.join(V, "seeded", d)))
if len(sys.argv) > 1:
    seeds = [s for s in seeds if s in sys.argv[1:]]
E = dict(os.environ, GOFLAGS="-mod=mod", GOPROXY="off", GOSUMDB="off", GOTOOLCHAIN="local")
out = os.path.join(V, "seeded", "MATRIX.json")
M = json.load(open(out)) if os.path.exists(out) else {}

def prep(s):
    d = tempfile.mkdtemp(prefix="mx-%s-" % s)
    subprocess.run(["rsync", "-a", "--exclude", ".git", "--exclude", "/sipproxy", "/repo/", d + "/"], check=True)
    p = subprocess.run("patch -p1 --no-backup-if-mismatch -F3 < %s" % os.path.join(V, "seeded", s, "patch.diff"), cwd=d, shell=True, capture_output=True, text=True)
    if p.returncode:
        print("PATCH FAILS", s, p.stdout[-300:]); return None
    return d

def cell(s, d, c):
    r = subprocess.run([os.path.join(V, "bin", "check"), c, "quick"], env=dict(E, VERIF_REPO=d), capture_output=True, text=True)
    return s, c, r.returncode

for s in seeds:
    d = prep(s)
    if not d:
        continue
    row = M.setdefault(s, {})
    todo = [c for c in checks if c not in row]
    with cf.ThreadPoolExecutor(max_workers=int(os.environ.get("PAR", "4"))) as ex:
        for s_, c, rc in ex.map(lambda c: cell(s, d, c), todo):
            row[c] = rc
    shutil.rmtree(d, ignore_errors=True)
    json.dump(M, open(out, "w"), indent=1, sort_keys=True)
    print(s, " ".join("%s=%d" % (c, row[c]) for c in checks if row.get(c)), flush=True)
