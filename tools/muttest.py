#!/usr/bin/env python3
"""Ad-hoc mutation self-test: muttest.py <Cxx>[,Cyy] <file> <old> <new> [tier]
Copies /repo to a scratch dir, replaces <old> by <new> (exactly one occurrence) in <file>,
checks that it still builds, and runs the named checks against the copy (VERIF_REPO)."""
import os, shutil, subprocess, sys, tempfile
ids, fn, old, new = sys.argv[1].split(","), sys.argv[2], sys.argv[3], sys.argv[4]
tier = sys.argv[5] if len(sys.argv) > 5 else "quick"
d = tempfile.mkdtemp(prefix="mut-")
try:
    subprocess.run(["rsync", "-a", "--exclude", ".git", "--exclude", "/sipproxy", "/repo/", d + "/"], check=True)
    p = os.path.join(d, fn)
    s = open(p).read()
    old = old.encode().decode("unicode_escape"); new = new.encode().decode("unicode_escape")
    assert s.count(old) == 1, "occurrences of old: %d" % s.count(old)
    open(p, "w").write(s.replace(old, new))
    e = dict(os.environ, GOFLAGS="-mod=mod", GOPROXY="off", GOSUMDB="off", VERIF_REPO=d)
    b = subprocess.run(["go", "build", "-o", "/dev/null", "."], cwd=d, env=e, capture_output=True, text=True)
    if b.returncode:
        print("MUTANT DOES NOT BUILD\n" + b.stderr); sys.exit(3)
    for i in ids:
        r = subprocess.run([os.path.join(os.path.dirname(os.path.abspath(__file__)), "..", "bin", "check"), i, tier], env=e, capture_output=True, text=True)
        tail = [l for l in r.stdout.splitlines() if l.startswith(("VIOLATION", "OK", "KNOWN", "NOTE", "  "))][:8]
        print("%s rc=%d %s" % (i, r.returncode, " | ".join(tail)))
        if r.returncode == 2:
            print(r.stderr[-1500:])
finally:
    shutil.rmtree(d, ignore_errors=True)
