#!/usr/bin/env python3
"""Regenerates /verif/MANIFEST.json from the table below (single source of truth for the interface)."""
import json, os, subprocess
V = os.path.dirname(os.path.dirname(os.path.abspath(__file__)))
props = [json.loads(l) for l in open(os.path.join(V, "properties.jsonl"))]

TB = ("trusted: TLC 1.8.0; the Go drivers/abstraction in /verif/harness/inpkg (they only step the real code and log; verdicts are TLC's); "
      "hooks emitted at the documented linearization points; ")

PF = 'TLA+ ProxyOps/ProxyOper/ProxyJudge: TLC checks the code-shaped pipeline model against the declarative relation on every recipe of a bounded universe (leg M), emits the recipes, the Go concretiser runs each on a real Proxy (leg R), and TLC judges alpha(in)/alpha(out) of every loop iteration with Trace_Proxy under Focus=%s (leg T)'
CHECKS = {
 "C05": dict(cat="model_checking", tech="TLA+ Pool spec: TLC exhaustive (sequential + racing threads) + TLC-emitted behaviours replayed on the real RoundRobinBackend + trace validation by TLC",
    text="Pool.tla model-checked exhaustively (all add/remove/dispatch histories to depth 9 over 4 addresses; 2 dispatcher threads x 3 critical sections racing with membership changes). "
         "Every sequence up to length 6 (quick) / 7 (thorough) emitted by TLC is replayed on a real RoundRobinBackend, plus random sequences to length 400 and real goroutine races; "
         "every step of every execution is judged by TLC against the declarative properties Window/Balance/Member/EmptyDrop.",
    note=TB + "Backend doubles; under races only membership-at-dispatch, single delivery and drop-only-when-empty are claimed.", ref="5/C05"),
 "C15": dict(cat="model_checking", tech="TLA+ Pins spec: TLC exhaustive over all pin/lookup/terminate/tick histories + TLC-sampled behaviours replayed in real time on the real DialogBasedBackend + interval-sound trace validation by TLC",
    text="Pins.tla model-checked exhaustively (3 keys, 2 backends, Expires in {absent, >T, 2^31-1}, clock to 6 (quick) / 8 (thorough): Honoured, Forgotten, Terminated, Purged; the pinned re-arming rule is shown to violate Purged). "
         "TLC-sampled histories and random histories over 1-200 dialogs are executed in real time on a real DialogBasedBackend; TLC judges each lookup and the set of remembered keys with the code's clock bracketed by two readings.",
    note=TB + "time.Now() lies inside the bracket of each call; outcomes inside the ambiguity window are not judged; reads DialogBasedBackend fields in-package.", ref="5/C15"),
 "C18": dict(cat="model_checking", tech="TLA+ StaticOps spec: TLC checks the operational three-phase lookup against the declarative precedence for every table/host of a bounded universe, emits them, and judges the answers of the real PreConfigRoute (trace validation)",
    text="Exhaustive over all route tables of up to 3 (quick) / 4 (thorough) entries over 7 patterns x 8 hosts: TLC proves Lookup admissible w.r.t. the declarative precedence and regex-translation = glob; every pair is then executed on real PreConfigRoute objects built from YAML "
         "(50 repeats x 3 objects), plus random larger tables; TLC judges stability, precedence and next-hop port of every answer.",
    note=TB + "pattern alphabet restricted to letters, digits, '.', '*', '-' (property domain).", ref="5/C18"),
 "C16": dict(cat="model_checking", tech="TLA+ DialogOps spec: self-composed law Code(a)=Code(b) <=> Decl(a)=Decl(b) checked by TLC over all pairs of a bounded alphabet; the universe is emitted and the partition induced by the real GetDialog is validated by TLC",
    text="TLC checks the law of C16 on every ordered pair of messages over 3 Call-IDs x 4 tags^2 x 6 URIs^2 (3.0M pairs thorough, 83k quick) for the repaired key construction and shows the pinned construction violates it. "
         "Every assignment is rendered as request/response, both orientations, decorated/undecorated, compact names, bare addr-spec, parsed by the real parser and GetDialog; TLC checks that the interned results induce exactly the partition of the declarative identity; random long identifiers with one-component mutations.",
    note=TB + "the driver's rendering of the abstract identity into header text is trusted (plain formatting).", ref="5/C16"),
 "C03": dict(cat="model_checking", tech=PF % "C03",
    text="The full decision table of the quantifier (54k recipes: Route shape incl. near misses x To-host class x Request-URI class x keep x listener port x pool x learnt/not/learnt through a real UDP listener) is model-checked (operational fall-through of proxy.go vs the declarative precedence table) and every cell is executed on a real Proxy with live loopback UDP/TCP sinks at every candidate destination, absence observed behind the loop barrier; TLC judges number of sends and destination.",
    note=TB + "regular-expression matches of service names are evaluated by the driver with Go regexp on the subject the property names (user@host / whole URI); quick executes every third recipe twice.", ref="5/C03"),
 "C13": dict(cat="model_checking", tech=PF % "C13",
    text="Route sets of 0-3 (quick) / 0-4 (thorough) entries in every header-line layout x first-entry class (own by address / alias / alias without port, near misses, foreign) x keep on/off x listener port 5060/5070, decorated with display names, valued and valueless URI parameters, header parameters: model-checked and executed; TLC compares the flattened Route stack relayed with RouteExpect entry by entry.",
    note=TB + "aliases through the configured host table only.", ref="5/C13"),
 "C06": dict(cat="model_checking", tech=PF % "C06",
    text="0-2 (quick) / 0-3 (thorough) Via and Record-Route entries in every layout x 7 header orders (+ random line interleavings) x three relaying paths x must-record-route x learnt by source / by Via host / through another listener / not learnt: model-checked and executed; TLC judges the Via and Record-Route stacks, the listener named, cookie and freshness of the branch (freshness over all branches seen in the run).",
    note=TB + "branch cookie/freshness are reported by alpha as booleans; a Via naming any transport of the backend's listen entry is accepted.", ref="5/C06"),
 "C01": dict(cat="model_checking", tech=PF % "C01",
    text="Requests and responses on all four relaying paths (UDP and TCP next hops, backends) x 7 header orders + random interleavings, with 0-40 extension headers (hostile values up to 16 KiB) and bodies to 60 KiB: TLC compares start line, the <<name, value>> sequence of every non-routing header, body id and the single Content-Length against the input.",
    note=TB + "folded lines, blanks before the colon, blank runs in start lines and messages without Content-Length are outside the domain; byte equality is reached through interning in alpha.", ref="5/C01"),
 "C02": dict(cat="model_checking", tech=PF % "C02",
    text="Responses with 1-4 Via entries in every layout x 11 entry shapes (port +/-, received, rport valued/valueless/alone, TCP, TLS, SCTP) x 7 status codes x 5 header orders: model-checked (operational PopVia/next-hop vs declarative RespHop) and executed against live loopback sinks; TLC judges relayed-or-not, destination triple and the remaining Via stack.",
    note=TB + "the closed-loop return-path consequence is covered by the dialog/history driver (C04) where requests and responses travel through the same proxy.", ref="5/C02"),
 "C07": dict(cat="model_checking", tech=PF % "C07" + "; the YAML wiring is covered by a conformance driver through startProxy with real sockets (no design to model-check there)",
    text="Stamping relation: rport {absent, valueless, spoofed} x received {absent, spoofed} x 1-3 (quick) / 1-4 (thorough) Via entries x received-support on/off x relaying paths model-checked and executed; plus the wiring: objects created by loadConfigFromReader + startProxy for no-received true/false/absent with a real UDP listener, an accepted TCP connection and the readers of outbound TCP connections (TCP backend, TCP next hop), judged by the same relation.",
    note=TB + "the wiring part is conformance only (configuration plumbing); deadlines of 2 s on loopback deliveries.", ref="5/C07"),
 "C04": dict(cat="model_checking", tech="TLA+ Sticky spec (pool rotation x pin table x dialog events): TLC exhaustive over all event interleavings; TLC-sampled histories replayed through the real message loop; Trace_Sticky maintains the declarative history variable `answered` and judges every dispatch",
    text="Sticky.tla model-checked over all interleavings of 2 dialogs x 3 backends x {initial, tagged answer, in-dialog request of 7 methods, unrelated, backend SUBSCRIBE answered, BYE answered, NOTIFY terminated} to depth 8 (quick) / 10 (thorough); the method-name exclusion of the pinned tree is shown to violate Sticky. "
         "TLC-sampled and random histories (1-50 dialogs, 2-6 backends, both directions, 10 methods, tags with '-', equal URIs) run through a real Proxy loop with Backend doubles registered via the real AddBackend event path; TLC judges every dispatch against `answered`.",
    note=TB + "dialog identity in the trace spec is the declarative one of C16; lifetime expiry is C15's business.", ref="5/C04"),
 "C17": dict(cat="model_checking", tech="TLA+ metamorphic twin relation JudgeC17: TLC checks that the line-level operators of the pipeline model commute with regrouping on every recipe (leg M), emits the recipes; two identical real proxies are stepped in lockstep on respelled / re-laid-out twins and TLC evaluates the twin relation on alpha(outputs)",
    text="Request universe (Route/Via/Record-Route lists of up to 3 entries in every layout x 4 (quick) / 7 (thorough) header orders x relaying paths) and response universe (11 Via shapes x layouts x 7 statuses): the model's outputs for a layout and for the flat layout are twin-related (TwinOK); on the real code each recipe is rendered once, its twin gets every header name independently respelled and every list re-cut, both run on two identical proxies with the same history; TLC compares destination, Via/Route/Record-Route stacks, canonical-name/value sequence of the remaining headers, body, Content-Length count.",
    note=TB + "nothing is compared with an expectation; a change breaking another property identically for both twins is invisible here by design.", ref="5/C17"),
 "C12": dict(cat="model_checking", tech="TLA+ Affinity spec (transport table with object identity and the exact key discipline): TLC exhaustive over all request/response interleavings; TLC-sampled interleavings replayed on real client connections to a real TCP listener with the loop barrier as scheduler gate; Trace_Affinity judges where every response was read",
    text="Affinity.tla model-checked over 3 connections x 5 transactions x {1xx then final, final only} with equal and different sent-by (36k states each); a one-object-per-peer design is shown to violate AffinityInv. TLC-sampled interleavings and random runs (2-8 connections from one address, 1-20 transactions each, received-support on/off, rport, sent-by as address or host name) on a real TCPServerTransport; where each relayed response is read is observed at system-call level, a listener on every sent-by address catches new connections.",
    note=TB + "retransmitted finals are not claimed; branches pairwise distinct.", ref="5/C12"),
 "C20": dict(cat="fault_enumeration", tech="TLA+ FailoverOps spec: TLC checks the two-attempt reconnect loops against the declarative Demand on the full fault product and emits it; every pattern is executed on the real FailOverClientTransport / TCPClientTransport / TCPBackend with scripted connections; Trace_Failover judges every send",
    text="The fault space of the quantifier is finite and fully enumerated in the model (45 patterns x message index) and on the code (client transports and TCP backends): returned error, connection(s) on which the complete message was observed, connections dialled, writes on a forgotten primary, elapsed time are judged against Demand (Fallback, Truthful, Once, NoHang, Straight).",
    note=TB + "accept-then-reset may report either outcome; listeners are on loopback (a black-holed destination cannot be produced in this sandbox).", ref="5/C20"),
 "C19": dict(cat="model_checking", tech="TLA+ ResolverOps spec: TLC checks the failure counter / diff rules against the declarative contribution on all outcome sequences and emits them; every sequence is injected into a real DynamicHostResolver wired to a real RoundRobinBackend and Proxy loop; Trace_Resolver judges rotation, recognised backend addresses and closure after each step",
    text="All 9^5 = 59049 sequences of resolution outcomes over the subsets of 3 addresses and failure (length 6 too in thorough) are model-checked (operational counters == declarative contribution: last success unless >= 4 consecutive failures followed) and emitted; quick replays every 20th, thorough all, plus random sequences to length 60 over 5-7 addresses and two names, udp and tcp; after quiescence (res.notified + rr.* + loop.bev hooks) TLC compares GetAllBackend, the proxy's index of backend addresses, closure of vanished backends.",
    note=TB + "outcomes injected at addressResolved (the DNS lookup is the environment); two names never share an address; quiescence between steps.", ref="5/C19"),
 "C11": dict(cat="model_checking", tech="TLA+ Framing spec (windowed reader with slice aliasing, fill, readLine step order) checked by TLC against the one-shot FrameAll under every segmentation; emitted (stream, segmentation) pairs and byte-level cut sweeps replayed on the real ParseMessage over bufio; Trace_Framing judges the extracted message sequence",
    text="Framing.tla: 9 streams over the line-length classes around the reader window (W-1, W, W+1, 2W+1), bodies that look like SIP text, keep-alives, under every single and double (thorough: triple) cut - SegInd holds with the first fragment copied and is violated by the pinned readLine order. Each pair is expanded to 1 KiB per symbol (model window = bufio's 4096 bytes) and run on the real code with CRLF and LF; plus every single and double BYTE cut of short sequences, random multi-cuts (down to 1-byte segments) of long ones (lines to 20 KiB, bodies to 60 KiB, 1-8 messages), and real TCP.",
    note=TB + "well-formed concatenations only; expectation built from the generator's structured messages.", ref="5/C11"),
 "C10": dict(cat="model_checking", tech="TLA+ UdpBuf spec (recycled buffers modelled physically, recv and parse threads): TLC exhaustive over all Alloc/Recv/Parse/Free interleavings of all datagram-class sequences; the sequences are emitted and sent to a real UDPServerTransport; Trace_Udp judges delivery, content, provenance and buffer ownership from the pool/udp hooks",
    text="UdpBuf.tla: all sequences of 3 (quick) / 4 (thorough) datagrams over 6 classes x every interleaving of the two goroutines: Isolation, Discard, DeliveredAll, OneHolder hold with the decoder limited to the first n bytes and Isolation is violated by the pinned whole-buffer decoder. On the real code every sequence plus random ones (3-62 datagrams of 20 B - 60 KiB, any cut offset, over/under-declared lengths, 1-3 sockets) go through a real socket; deliveries are serialised after the burst; each body byte encodes its datagram so that the provenance set is observed.",
    note=TB + "kernel drops before udp.recv are not charged; buffer identities from the pool.* / udp.* hooks.", ref="5/C10"),
 "C14": dict(cat="model_checking", tech="TLA+ MC_Codec: TLC enumerates the bounded grammar of typed header values (each AST an initial state) and emits it; each AST is rendered with seeded tokens and pushed through the real decoders/encoders; Trace_Codec (TLC) judges alpha(String(Parse(text))) = Norm(alpha(text)), the fixpoint, and the accessors",
    text="Exhaustive over the bounded grammar (494k ASTs quick / several million thorough; sampled by stride for execution): name-addr and bare addr-spec, display names, sip/sips/tel/urn, user[:password], IPv4/name hosts, ports, URI parameter sequences over {valued, valueless, lr, %-valued}, URI headers incl. empty values, header parameter sequences, Via lists with parameter sequences; each executed through ParseFromSpec/ParseTo/ParseRoute/ParseRecordRoute/ParseNameAddr/ParseAddrSpec/ParseSipURI/ParseVia and a whole Message; random larger values. IPv6 references and user parts with ';' or '?' are generated and reported as KNOWN-FINDING (the property says so).",
    note=TB + "TLC's contribution to the design is small for a codec; the verdict is TLC's on alpha of the real results; the Via default-port normalisation is accepted.", ref="5/C14"),
 "C08": dict(cat="exploration", tech="TLA+ Robust spec (every partial operation on attacker-controlled values an explicit guarded step, invariant NeverCrash) enumerates hostile field-class combinations; each is sent through real UDP/TCP listeners and the real loop (no recover: a panic ends the driver and is reported with its input), plus seeded byte-level mutation; Trace_Robust judges the sentinel / memory / connection-closure contract",
    text="Model-directed enumeration: all combinations of at most two hostile fields (15k states; start line, Content-Length incl. 2^31 / 2^62 / negative / non-numeric / larger / smaller, Via incl. '[' / '[]' / empty / huge / 1000 entries / SCTP, Route incl. unsupported transport, From/To/CSeq/Request-URI, 5000 headers / parameters) x request/response x UDP/TCP, executed on proxies with received-support on and off; seeded mutation of a corpus in batches. Judged: process survives, a sentinel request is still relayed after every input (within 5 s), memory allocated <= 256 x bytes + 4 MiB, undecodable TCP input closes its connection.",
    note=TB + "coverage-guided fuzzing is another technique family and is not used: the arbitrary-byte-string half of the quantifier is covered by seeded mutation only; loopback destinations only.", ref="5/C08"),
 "C09": dict(cat="exploration", tech="TLA+ Threads spec (goroutines, shared objects, the lock the code holds at every access): TLC exhaustive over all interleavings for NoRace / Confined / Progress; bound to the code by load runs under the Go race detector with inert hooks and by probe runs whose per-phase accounting Trace_Threads (TLC) judges",
    text="Threads.tla model-checked (121k states; the unlocked shared learnt-route table of the pinned tree violates NoRace). On the real code: 2-4 listeners of one service started by startProxy, UDP+TCP clients, UDP+TCP answering backends, a host-name backend churned through the real resolver path, Route next hops by names only the system resolver knows, GOMAXPROCS 16/2/4/1, several seeds; race reports whose stacks lie in the repository's sources and fatal errors are violations; probe runs check delivery to exactly one backend, responses back to the sender, no overlap of brackets on the learnt-route table, sentinels after the load.",
    note=TB + "schedules are sampled by stress, not enumerated; loss is claimed only without membership churn; a probe verdict must reproduce on the same seed.", ref="5/C09"),
}
NA_REASON = "check not built yet (work in progress; see DESIGN.md section 9)"

def hook_commits():
    try:
        out = subprocess.run(["git", "-C", "/repo", "log", "--format=%H %s"], capture_output=True, text=True).stdout
        return [l.split()[0] for l in out.splitlines() if " verif:" in l][::-1]
    except Exception:
        return []

m = {"version": 1,
     "setup_cmd": "cd /verif && tools/setup.sh",
     "hooks": {"guard": "verif", "enable": "go test -c -tags verif on a scratch copy of /repo's working tree with /verif/harness/inpkg/*.go overlaid (tools/vlib.py)",
               "baseline_off_cmd": "cd /repo && GOFLAGS=-mod=mod GOPROXY=off GOSUMDB=off go test -vet=off -count=1 -timeout 25m ./...",
               "source_commits": hook_commits(), "add_only": True},
     "engines": [{"name": "inpkg", "path": "harness/inpkg", "serves_properties": sorted(CHECKS), "kind_free_text": "in-package drivers (package main overlay, build tag verif) that step the real code and write NDJSON traces"},
                 {"name": "tlc", "path": "spec", "serves_properties": sorted(CHECKS), "kind_free_text": "TLA+ specification; TLC model checking, behaviour emission and trace validation (tools/vlib.py)"}],
     "checks": [], "not_applicable": [],
     "notes": "bin/check <id> <tier>: exit 0 held / 1 VIOLATION (reproduced on the real code) / 2 infrastructure error (never a verdict). Known findings: /verif/known_findings.json."}
for p in props:
    i = p["id"]
    if i in CHECKS:
        c = CHECKS[i]
        m["checks"].append({"property_id": i, "quick_cmd": "bin/check %s quick" % i, "thorough_cmd": "bin/check %s thorough" % i,
                            "evidence_file": "evidence/%s.json" % i, "replay_cmd_template": "bin/check %s --replay {path}" % i, "engine": "inpkg+tlc",
                            "level_claimed": {"category": c["cat"], "text": c["text"], "design_ref": c["ref"]},
                            "level_note": c["note"], "technique": c["tech"]})
    else:
        m["not_applicable"].append({"property_id": i, "reason": NA_REASON})
json.dump(m, open(os.path.join(V, "MANIFEST.json"), "w"), indent=1)
print("checks:", len(m["checks"]), "not_applicable:", len(m["not_applicable"]))
