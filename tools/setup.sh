#!/bin/sh
# Offline setup: warm the Go build cache for the in-package harness and check the tools are there.
set -e
export GOFLAGS=-mod=mod GOPROXY=off GOSUMDB=off GOTOOLCHAIN=local
command -v java >/dev/null
test -f /opt/veriftools/tla/tla2tools.jar
S=$(mktemp -d)
trap 'rm -rf "$S"' EXIT
rsync -a --exclude .git --exclude /sipproxy /repo/ "$S/"
cp /verif/harness/inpkg/*.go "$S/"
(cd "$S" && go test -c -vet=off -tags verif -o "$S/vt.test" . && go test -c -vet=off -race -o "$S/vtr.test" . ) >/dev/null 2>&1 || { echo "setup: harness build failed" >&2; (cd "$S" && go test -c -vet=off -tags verif -o "$S/vt.test" .); exit 1; }
echo "setup ok"
