#!/usr/bin/env python3
"""regress.py [-j N] [pattern...] - every stored seeded change against the check of its own property (scratch copy + patch,
VERIF_REPO); prints one line per seed and a summary; exit 0 iff every one is reported (rc 1).  Results go to seeded/REGRESS.json."""
import json, os, shutil, subprocess, sys, tempfile, fnmatch, concurrent.futures as cf
V = os.path.dirname(os.path.dirname(os.path.abspath(__file__)))
E = dict(os.environ, GOFLAGS="-mod=mod", GOPROXY="off", GOSUMDB="off", GOTOOLCHAIN="local")
args = sys.argv[1:]
par = 3
if args[:1] == ["-j"]:
    par = int(args[1]); args = args[2:]
seeds = sorted(d for d in os.listdir(os.path.join(V, "seeded")) if os.path.isfile(os.path.join(V, "seeded", d, "patch.diff")))
if args:
    seeds = [s for s in seeds if any(fnmatch.fnmatch(s, a) for a in args)]

def one(s):
    try:
        if json.load(open(os.path.join(V, "seeded", s, "meta.json"))).get("not_a_violation"):
            return s, 1, "skipped: judged not to violate the property as stated (see its meta.json)"
    except (OSError, ValueError):
        pass
    d = tempfile.mkdtemp(prefix="rg-%s-" % s)
    try:
        subprocess.run(["rsync", "-a", "--exclude", ".git", "--exclude", "/sipproxy", "/repo/", d + "/"], check=True)
        p = subprocess.run("patch -p1 --no-backup-if-mismatch -F3 < %s" % os.path.join(V, "seeded", s, "patch.diff"), cwd=d, shell=True, capture_output=True, text=True)
        if p.returncode:
            return s, 3, "patch does not apply"
        r = subprocess.run([os.path.join(V, "bin", "check"), s.split("-")[0], "quick"], env=dict(E, VERIF_REPO=d), capture_output=True, text=True)
        lines = [l for l in r.stdout.splitlines() if l.startswith(("VIOLATION", "OK", "  "))][:2]
        return s, r.returncode, " | ".join(lines)[:300] if r.returncode != 2 else r.stderr[-600:]
    finally:
        shutil.rmtree(d, ignore_errors=True)

res = {}
with cf.ThreadPoolExecutor(par) as ex:
    for s, rc, txt in ex.map(one, seeds):
        res[s] = rc
        print("%s rc=%d %s" % (s, rc, txt), flush=True)
json.dump(res, open(os.path.join(V, "seeded", "REGRESS.json"), "w"), indent=1, sort_keys=True)
bad = [s for s, rc in res.items() if rc != 1]
print("SUMMARY %d seeds, %d reported, not reported: %s" % (len(res), len(res) - len(bad), " ".join(bad) or "-"))
sys.exit(1 if bad else 0)
