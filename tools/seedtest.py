#!/usr/bin/env python3
"""seedtest.py <dir-with patch.diff,seeded_demo_test.go,meta.json> <name> [--checks C05,C09] [--tier quick] [--skip-confirm]
Confirms a seeded change in a scratch copy of /repo (suite passes with it, demo fails with it and passes without it),
stores it as /verif/seeded/<name>/ and runs the named checks against the changed copy (VERIF_REPO)."""
import argparse, json, os, shutil, subprocess, sys, tempfile, time
ap = argparse.ArgumentParser()
ap.add_argument("src"); ap.add_argument("name")
ap.add_argument("--checks", default=""); ap.add_argument("--tier", default="quick"); ap.add_argument("--skip-confirm", action="store_true")
ap.add_argument("--seed", default="1")
a = ap.parse_args()
V = os.path.dirname(os.path.dirname(os.path.abspath(__file__)))
E = dict(os.environ, GOFLAGS="-mod=mod", GOPROXY="off", GOSUMDB="off", GOTOOLCHAIN="local")
def sh(cmd, cwd, timeout=900):
    p = subprocess.run(cmd, cwd=cwd, env=E, shell=True, capture_output=True, text=True, timeout=timeout)
    return p.returncode, p.stdout + p.stderr
d = tempfile.mkdtemp(prefix="seed-")
res = {}
try:
    subprocess.run(["rsync", "-a", "--exclude", ".git", "--exclude", "/sipproxy", "/repo/", d + "/"], check=True)
    patch = os.path.abspath(os.path.join(a.src, "patch.diff"))
    demo = os.path.join(a.src, "seeded_demo_test.go")
    if not a.skip_confirm:
        shutil.copy(demo, d)
        rc, out = sh("go test -vet=off -count=1 -run TestSeededDemo .", d)
        res["demo_passes_without_change"] = (rc == 0)
        print("demo without change: rc=%d" % rc); 
        if rc: print(out[-1500:])
    rc, out = sh("patch -p1 --no-backup-if-mismatch -F3 < %s" % patch, d)
    print("apply:", rc, out.strip().replace("\n", " | ")[:300])
    if rc: sys.exit(3)
    rc, out = sh("go build -o /dev/null .", d)
    if rc: print("DOES NOT BUILD", out); sys.exit(3)
    if not a.skip_confirm:
        rc, out = sh("go test -vet=off -count=1 -run TestSeededDemo .", d)
        res["demo_fails_with_change"] = (rc != 0)
        print("demo with change: rc=%d" % rc)
        os.remove(os.path.join(d, "seeded_demo_test.go"))
        rc, out = sh("go test -vet=off -count=1 ./...", d)
        res["suite_passes_with_change"] = (rc == 0)
        print("suite with change: rc=%d %s" % (rc, out.strip().splitlines()[-1] if out.strip() else ""))
        dst = os.path.join(V, "seeded", a.name)
        os.makedirs(dst, exist_ok=True)
        # store the patch as it applies to the current /repo
        rc2, diff = sh("diff -u -r -N --exclude=.git --exclude=sipproxy /repo . | sed -e 's#^--- /repo/#--- a/#' -e 's#^+++ \\./#+++ b/#' | grep -v '^diff -u'", d)
        open(os.path.join(dst, "patch.diff"), "w").write(diff)
        shutil.copy(demo, dst)
        meta = json.load(open(os.path.join(a.src, "meta.json"))) if os.path.exists(os.path.join(a.src, "meta.json")) else {}
        meta["confirmed_by_me"] = res
        meta["confirmed_on_repo_commit"] = subprocess.run(["git", "-C", "/repo", "rev-parse", "--short", "HEAD"], capture_output=True, text=True).stdout.strip()
        meta.setdefault("ran", [])
        json.dump(meta, open(os.path.join(dst, "meta.json"), "w"), indent=1)
        if not all(res.values()):
            print("NOT CONFIRMED:", res)
    E2 = dict(E, VERIF_REPO=d, VERIF_SEED=a.seed)
    for c in [x for x in a.checks.split(",") if x]:
        t = time.time()
        r = subprocess.run([os.path.join(V, "bin", "check"), c, a.tier], env=E2, capture_output=True, text=True)
        lines = [l for l in r.stdout.splitlines() if l.startswith(("VIOLATION", "OK", "KNOWN", "  "))][:6]
        print("CHECK %s on %s: rc=%d (%.0fs) %s" % (c, a.name, r.returncode, time.time() - t, " | ".join(lines)))
        if r.returncode == 2: print(r.stderr[-2500:])
        mp = os.path.join(V, "seeded", a.name, "meta.json")
        if os.path.exists(mp):
            meta = json.load(open(mp)); meta.setdefault("ran", []).append({"check": c, "tier": a.tier, "seed": a.seed, "rc": r.returncode, "lines": lines[:3]})
            json.dump(meta, open(mp, "w"), indent=1)
finally:
    shutil.rmtree(d, ignore_errors=True)
