#!/usr/bin/env python3
"""Common plumbing for the sipproxy model-based checks (DESIGN.md sections 4.3, 4.5, 8).

Every verdict is produced by TLC; this library only
  * builds the in-package test binary from /repo's *current working tree*
    (scratch copy + overlay of /verif/harness/inpkg, -tags verif),
  * runs TLC (exhaustive model checking, behaviour emission, trace validation),
  * turns TLC's judgement into exit codes / VIOLATION / KNOWN-FINDING lines,
  * writes /verif/evidence/<id>.json from measured numbers.

Exit codes: 0 held, 1 violation (reproduced), 2 infrastructure error.
"""
import atexit
import json
import os
import re
import shutil
import subprocess
import sys
import tempfile
import time

VERIF = os.path.dirname(os.path.dirname(os.path.abspath(__file__)))
REPO = os.environ.get("VERIF_REPO", "/repo")
# runs against a modified copy of the repository (mutation self-tests) must not overwrite the evidence of the real tree
EVDIR = os.path.join(VERIF, "evidence") if os.path.realpath(REPO) == "/repo" else os.path.join(VERIF, "evidence_mutants")
TLA_CP = "/opt/veriftools/tla/tla2tools.jar:/opt/veriftools/tla/CommunityModules-deps.jar"
NCPU = os.cpu_count() or 4


def panic_site(out, srcdir):
    """Where a panic / fatal error of a Go test process came from: the innermost frame that lies in the scratch source
    directory, in the stack of the goroutine that panicked (the first one printed).  Returns (basename, line, is_repo_code)
    or None.  A panic whose innermost frame there is harness code (zz_vf_*, *_test.go) is a bug of the machinery - never
    a verdict; frames of the Go runtime and library do not count either way."""
    m = re.search(r"^(panic: .*|fatal error: .*)$", out, re.M)
    if not m:
        return None
    rest = out[m.end():]
    g = re.search(r"^goroutine \d+ [^\n]*\n((?:.+\n)+)", rest, re.M)
    block = g.group(1) if g else rest[:20000]
    for f, ln in re.findall(r"^\s+(\S+\.go):(\d+)", block, re.M):
        if f.startswith(srcdir.rstrip("/") + "/"):
            b = os.path.basename(f)
            return b, ln, not ("zz_vf_" in b or b.endswith("_test.go"))
    return None


class Hang(Exception):
    """raised after a hang inside the code under test has been recorded as a violation"""


class Infra(Exception):
    """Infrastructure failure: never a verdict (exit 2)."""


def log(*a):
    print(*a, file=sys.stderr, flush=True)


def go_env():
    e = dict(os.environ)
    e.update(GOFLAGS="-mod=mod", GOPROXY="off", GOSUMDB="off", GOTOOLCHAIN="local")
    e.setdefault("HOME", "/root")
    return e


class Ctx:
    """One run of one property check."""

    def __init__(self, pid, tier=None, seed=None, level="model_checking"):
        self.pid = pid
        self.tier = tier or os.environ.get("VERIF_TIER", "quick")
        if self.tier not in ("quick", "thorough"):
            self.tier = "quick"
        try:
            self.seed = int(seed if seed is not None else os.environ.get("VERIF_SEED", "1"))
        except ValueError:
            self.seed = 1
        self.level = level
        self.t0 = time.time()
        self.scratch = tempfile.mkdtemp(prefix="verif-%s-" % pid.lower())
        atexit.register(self.cleanup)
        self._specdir = None
        self._bins = {}
        # measured coverage
        self.states = 0
        self.transitions = 0
        self.tlc_runs = []
        self.traces = 0
        self.events = 0
        self.evaluations = 0
        self.distinct = 0
        self.samples = []
        self.violations = []     # (what, replay_dir)
        self.known = []          # text lines
        self.assumptions = []
        self.extra = {}
        self.exhaustive = False
        self.rule = ""
        self.trusted = []
        ev = os.path.join(EVDIR, "%s.json" % pid)
        if os.path.exists(ev):
            try:
                os.remove(ev)
            except OSError:
                pass

    @property
    def quick(self):
        return self.tier == "quick"

    def cleanup(self):
        if os.environ.get("VERIF_KEEP"):
            log("scratch kept:", self.scratch)
            return
        shutil.rmtree(self.scratch, ignore_errors=True)

    # ------------------------------------------------------------------ build
    def srcdir(self):
        d = os.path.join(self.scratch, "src")
        if not os.path.isdir(d):
            subprocess.run(["rsync", "-a", "--exclude", ".git", "--exclude", "/sipproxy",
                            "--exclude", "*.test", REPO + "/", d + "/"], check=True)
            ov = os.path.join(VERIF, "harness", "inpkg")
            for f in sorted(os.listdir(ov)):
                if f.endswith(".go"):
                    shutil.copy(os.path.join(ov, f), os.path.join(d, f))
        return d

    def testbin(self, race=False, tags="verif"):
        key = (race, tags)
        if key in self._bins:
            return self._bins[key]
        d = self.srcdir()
        out = os.path.join(self.scratch, "vt%s%s.test" % ("_race" if race else "", "_" + tags if tags else "_notag"))
        cmd = ["go", "test", "-c", "-vet=off", "-o", out]
        if tags:
            cmd += ["-tags", tags]
        if race:
            cmd += ["-race"]
        cmd += ["."]
        t = time.time()
        p = subprocess.run(cmd, cwd=d, env=go_env(), stdout=subprocess.PIPE, stderr=subprocess.STDOUT, text=True)
        if p.returncode != 0 or not os.path.exists(out):
            raise Infra("build of the in-package test binary failed:\n" + p.stdout[-4000:])
        log("[build] %s in %.1fs" % (os.path.basename(out), time.time() - t))
        self._bins[key] = out
        return out

    def run_driver(self, test, env=None, race=False, tags="verif", timeout=1200, args=None, allow_fail=False):
        """Run one driver (a Test function of the overlay) in the scratch copy.
        Returns (rc, output)."""
        b = self.testbin(race=race, tags=tags)
        e = go_env()
        e["VERIF_SEED"] = str(self.seed)
        e["VERIF_TIER"] = self.tier
        e["VERIF_SCRATCH"] = self.scratch
        if env:
            e.update({k: str(v) for k, v in env.items()})
        cmd = [b, "-test.run", "^%s$" % test, "-test.count=1", "-test.timeout", "%ds" % timeout]
        if args:
            cmd += args
        t = time.time()
        try:
            p = subprocess.run(cmd, cwd=self.srcdir(), env=e, stdout=subprocess.PIPE, stderr=subprocess.STDOUT,
                               text=True, errors="replace", timeout=timeout + 30)
        except subprocess.TimeoutExpired as x:
            raise Infra("driver %s timed out after %ds" % (test, timeout))
        log("[driver] %s rc=%d in %.1fs" % (test, p.returncode, time.time() - t))
        if "VF-HANG idle=" in p.stdout:
            self.hang(test, p.stdout)
        if p.returncode != 0 and not allow_fail:
            # the driver died.  A panic / fatal error whose innermost frame (in the stack of the goroutine that panicked) lies in
            # the repository's own code is an observed behaviour no property allows; anything else is infrastructure
            m = re.search(r"^(panic: .*|fatal error: .*)$", p.stdout, re.M)
            site = panic_site(p.stdout, self.srcdir())
            if m and site and site[2] and "VF-INFRA" not in p.stdout:
                cp = os.path.join(self.scratch, "crash_%s.txt" % test)
                with open(cp, "w") as fh:
                    fh.write(p.stdout[-20000:])
                self.violation("the code under test crashed while the driver %s exercised it: %s (%s:%s)" % (test, m.group(1)[:200], site[0], site[1]), files=[cp], tag="crash")
                raise Hang()
            raise Infra("driver %s failed (rc=%d):\n%s" % (test, p.returncode, p.stdout[-6000:]))
        return p.returncode, p.stdout

    def hang(self, test, out):
        """The driver's watchdog fired.  If a goroutine of the driver (one with a zz_vf_ frame) has been inside the code
        under test for a minute or more - its innermost frames are the repository's own files - then a call the driver
        made never returned: that is an observed behaviour (dead lock, lock never released, endless loop), reported
        against the property.  Anything else is infrastructure."""
        dump = out[out.index("VF-HANG idle="):]
        src = self.srcdir()

        def inside(sample):
            """goroutine id -> (function, file, line, state) for the driver's goroutines whose innermost frame in the
            source directory is the repository's own code"""
            r = {}
            for blk in re.split(r"\n\n(?=goroutine \d+ )", sample):
                h = re.match(r"goroutine (\d+) \[([^\]]*)\]", blk.strip())
                if not h:
                    continue
                frames = re.findall(r"^(\S.*)\n\t(\S+\.go):(\d+)", blk, re.M)
                if not any("zz_vf_" in f for _, f, _ in frames):
                    continue
                for fn, f, ln in frames:
                    if f.startswith(src + "/"):
                        b = os.path.basename(f)
                        if "zz_vf_" not in b and not b.endswith("_test.go"):
                            r[h.group(1)] = (re.sub(r"\([^()]*\)$", "", fn).split("/")[-1][:80], b, ln, h.group(2).split(",")[0])
                        break
            return r
        first, _, second = dump.partition("VF-HANG-SECOND-SAMPLE")
        a, b = inside(first), inside(second)
        for g in sorted(a, key=int):
            if g in b and a[g][:3] == b[g][:3]:
                fn, f, ln, state = a[g]
                p = os.path.join(self.scratch, "hang_%s.txt" % test)
                with open(p, "w") as fh:
                    fh.write(dump[:400000])
                self.violation("a call into the code under test never returned: %s (%s:%s) [%s]; the driver had made no progress for %s s" % (
                    fn, f, ln, state, re.match(r"VF-HANG idle=(\d+)", dump).group(1)), files=[p], tag="hang-" + f)
                raise Hang()
        raise Infra("driver %s hung outside the code under test:\n%s" % (test, dump[:6000]))

    # -------------------------------------------------------------------- TLC
    def specdir(self):
        if self._specdir is None:
            d = os.path.join(self.scratch, "spec")
            shutil.copytree(os.path.join(VERIF, "spec"), d, ignore=shutil.ignore_patterns("states", "*_TTrace_*"))
            self._specdir = d
        return self._specdir

    def tlc(self, module, cfg=None, workers=None, timeout=900, heap="6g", env=None, simulate=None,
            depth=None, coverage=False, deadlock=False, dfs=False, name=None, expect_violation=None, count=True):
        """Run TLC on spec/<module>.tla with <cfg>. Returns a dict with parsed statistics.
        Raises Infra on timeout/OOM/parse errors.  A property violation is *returned*, not raised."""
        d = self.specdir()
        cfg = cfg or (module + ".cfg")
        meta = tempfile.mkdtemp(prefix="meta-", dir=self.scratch)
        workers = workers or min(NCPU, 16)
        cmd = ["timeout", "-k", "10", str(timeout), "java", "-Xmx" + heap, "-Xss256m", "-XX:+UseParallelGC"]
        if dfs:
            cmd += ["-Dtlc2.tool.queue.IStateQueue=StateDeque"]
        cmd += ["-cp", TLA_CP, "tlc2.TLC", "-metadir", meta, "-workers", str(workers),
                "-config", cfg, "-noGenerateSpecTE", "-lncheck", "final"]
        if not deadlock:
            cmd += ["-deadlock"]
        if coverage:
            cmd += ["-coverage", "1"]
        if simulate:
            cmd += ["-simulate", simulate]
            if depth:
                cmd += ["-depth", str(depth)]
            cmd += ["-seed", str(self.seed)]
        cmd += [module + ".tla"]
        e = dict(os.environ)
        if env:
            e.update({k: str(v) for k, v in env.items()})
        t = time.time()
        p = subprocess.run(cmd, cwd=d, env=e, stdout=subprocess.PIPE, stderr=subprocess.STDOUT, text=True, errors="replace")
        out = p.stdout
        shutil.rmtree(meta, ignore_errors=True)
        r = {"module": module, "cfg": cfg, "rc": p.returncode, "out": out, "wall_s": round(time.time() - t, 2),
             "generated": 0, "distinct": 0, "depth": 0, "violated": [], "noerror": False, "name": name or cfg}
        m = None
        for m in re.finditer(r"(\d+) states generated, (\d+) distinct states found", out):
            pass
        if m:
            r["generated"], r["distinct"] = int(m.group(1)), int(m.group(2))
        m = re.search(r"The depth of the complete state graph search is (\d+)", out)
        if m:
            r["depth"] = int(m.group(1))
        r["noerror"] = "No error has been found" in out
        for m in re.finditer(r"Error: (?:Invariant|Action property|Temporal property|Property) (\S+) is violated", out):
            r["violated"].append(m.group(1))
        if "Temporal properties were violated" in out:
            r["violated"].append("<temporal>")
        if "Deadlock reached" in out:
            r["violated"].append("<deadlock>")
        m = re.search(r"Error: The postcondition|Postcondition .* violated|The postcondition", out)
        if m and not r["noerror"]:
            r["violated"].append("<postcondition>")
        if p.returncode == 124 or p.returncode == 137:
            raise Infra("TLC timeout on %s/%s after %ss" % (module, cfg, timeout))
        if "OutOfMemoryError" in out or "StackOverflowError" in out:
            raise Infra("TLC resource error on %s/%s:\n%s" % (module, cfg, out[-2000:]))
        if "Parsing or semantic analysis failed" in out:
            seen, uniq = set(), []
            for ln in out.splitlines():
                if ln.strip() and ln not in seen and not ln.startswith(("Parsing file", "Semantic processing", "Linting")):
                    seen.add(ln)
                    uniq.append(ln)
            raise Infra("TLC parse/semantic error in %s:\n%s" % (module, "\n".join(uniq[:60])))
        if not r["noerror"] and not r["violated"] and not simulate:
            raise Infra("TLC did not finish normally on %s/%s (rc=%d):\n%s" % (module, cfg, p.returncode, out[-5000:]))
        if simulate and p.returncode not in (0,) and not r["violated"]:
            raise Infra("TLC simulation failed on %s/%s (rc=%d):\n%s" % (module, cfg, p.returncode, out[-5000:]))
        if simulate:
            m = re.search(r"The number of states generated: (\d+)", out)
            if m:
                r["generated"] = int(m.group(1))
        log("[tlc] %s/%s: %d generated, %d distinct, depth %d, %s, %.1fs" % (
            module, cfg, r["generated"], r["distinct"], r["depth"],
            "no error" if (r["noerror"] or (simulate and not r["violated"])) else ("VIOLATED " + ",".join(r["violated"])), r["wall_s"]))
        if count:
            self.states += r["distinct"]
            self.transitions += r["generated"]
            self.tlc_runs.append({k: r[k] for k in ("name", "module", "cfg", "generated", "distinct", "depth", "wall_s", "noerror", "violated")})
        if coverage:
            r["zero_cov"] = self._zero_coverage(out)
        return r

    @staticmethod
    def _zero_coverage(out):
        """Actions of the spec never taken (vacuity self-test)."""
        z = []
        for m in re.finditer(r"^<(\w+) line \d+, col \d+ to line \d+, col \d+ of module (\w+)>: (\d+):(\d+)", out, re.M):
            if int(m.group(4)) == 0 and m.group(1) not in ("Init",):
                z.append(m.group(1))
        return z

    def prove(self, module, timeout=600):
        """Unbounded facts about pure operators: every proof obligation of the module must be discharged by TLAPS (tlapm).
        A failed or missing proof is a failure of the machinery (exit 2) - it is a statement about the specification."""
        t = time.time()
        try:
            p = subprocess.run(["tlapm", "--threads", "8", "--cleanfp", module + ".tla"], cwd=self.specdir(), stdout=subprocess.PIPE, stderr=subprocess.STDOUT,
                               text=True, errors="replace", timeout=timeout)
        except (OSError, subprocess.TimeoutExpired) as x:
            raise Infra("tlapm %s: %s" % (module, x))
        m = re.search(r"All (\d+) obligations? proved", p.stdout)
        log("[tlapm] %s: %s, %.1fs" % (module, m.group(0) if m else "NOT PROVED", time.time() - t))
        if not m or p.returncode != 0:
            raise Infra("TLAPS did not prove every obligation of %s:\n%s" % (module, p.stdout[-3000:]))
        self.extra.setdefault("tlaps_obligations_proved", {})[module] = int(m.group(1))
        return int(m.group(1))

    def model_check(self, module, cfg=None, **kw):
        """Leg M: exhaustive check of a bounded instance; a violated property of the *design* is
        an infrastructure-level failure of the check (the model is supposed to describe the
        repaired design) unless the caller asked for it (expect_violation)."""
        exp = kw.pop("expect_violation", None)
        r = self.tlc(module, cfg, **kw)
        if exp:
            if exp not in r["violated"]:
                raise Infra("self-test: %s/%s was expected to violate %s but TLC reported %s" % (
                    module, cfg or module, exp, r["violated"] or "no error"))
            return r
        if r["violated"]:
            raise Infra("the bounded model %s/%s violates %s - the specification itself is inconsistent:\n%s" % (
                module, cfg or module, r["violated"], r["out"][-3000:]))
        if kw.get("coverage") and r.get("zero_cov"):
            raise Infra("vacuity self-test: actions never taken in %s/%s: %s" % (module, cfg, r["zero_cov"]))
        return r

    def emit(self, module, cfg, outfile, env=None, **kw):
        """Leg R source: run TLC so that it writes one JSON behaviour per line to outfile
        (CSVWrite in a CONSTRAINT/ACTION of the MC module, reading IOEnv.OUT)."""
        if os.path.exists(outfile):
            os.remove(outfile)
        e = dict(env or {})
        e["OUT"] = outfile
        kw.setdefault("count", False)
        r = self.tlc(module, cfg, env=e, **kw)
        if r["violated"]:
            raise Infra("emission run %s/%s reported %s" % (module, cfg, r["violated"]))
        if not os.path.exists(outfile):
            raise Infra("emission run %s/%s wrote nothing" % (module, cfg))
        return r

    CHUNK_BYTES = int(os.environ.get("VERIF_CHUNK_MB", "96")) << 20

    def validate(self, module, cfg, tracefile, env=None, timeout=1800, heap="8g", workers=1, **kw):
        """Leg T: validate an NDJSON trace file against Trace_<X>. The trace spec is deterministic
        (every field logged) and reports each unexplained line with PrintT("FAIL|line|case|what|detail");
        all lines must be consumed.  Returns (fails, stats).
        A file larger than CHUNK_BYTES is validated in pieces (TLC deserialises the whole file into the heap): a piece
        starts only where the trace spec starts afresh - at a "reset" event when the spec has one, at any line when
        the spec keeps no state besides the line counter."""
        n = 0
        with open(tracefile, "rb") as f:
            for _ in f:
                n += 1
        if n == 0:
            raise Infra("empty trace %s" % tracefile)
        if os.path.getsize(tracefile) <= self.CHUNK_BYTES:
            return self._validate1(module, cfg, tracefile, n, 0, env, timeout, heap, workers, **kw)
        with open(os.path.join(VERIF, "spec", module + ".tla")) as f:
            has_reset = '"reset"' in f.read()
        pieces = []
        out, size, start, cnt = None, 0, 0, 0
        with open(tracefile, "rb") as f:
            for i, line in enumerate(f):
                if out is None or (size >= self.CHUNK_BYTES and (not has_reset or b'"ev":"reset"' in line)):
                    if out is not None:
                        out.close()
                        pieces[-1][2] = cnt
                    pp = "%s.part%d" % (tracefile, len(pieces))
                    out, size, cnt = open(pp, "wb"), 0, 0
                    pieces.append([pp, i, 0])
                out.write(line)
                size += len(line)
                cnt += 1
        out.close()
        pieces[-1][2] = cnt
        fails, last = [], None
        agg = {"generated": 0, "distinct": 0, "depth": 0, "wall_s": 0.0, "warns": [], "out": "", "violated": None}
        for pp, off, cnt in pieces:
            fs, r = self._validate1(module, cfg, pp, cnt, off, env, timeout, heap, workers, **kw)
            os.remove(pp)
            fails += fs
            for k in ("generated", "distinct", "wall_s"):
                agg[k] += r[k]
            agg["depth"] = max(agg["depth"], r["depth"])
            agg["warns"] += r["warns"]
        log("[tlc] %s validated in %d pieces" % (os.path.basename(tracefile), len(pieces)))
        return fails, agg

    def _validate1(self, module, cfg, tracefile, n, offset, env, timeout, heap, workers, **kw):
        e = dict(env or {})
        e["TRACE_FILE"] = tracefile
        r = self.tlc(module, cfg, env=e, workers=workers, timeout=timeout, heap=heap, count=False, **kw)
        fails, warns = [], []
        for m in re.finditer(r'^"(FAIL|WARN)\|(\d+)\|([^|]*)\|([^|]*)\|(.*)"\s*$', r["out"], re.M):
            rec = {"line": int(m.group(2)) + offset, "case": m.group(3), "what": m.group(4), "detail": m.group(5)[:600]}
            (fails if m.group(1) == "FAIL" else warns).append(rec)
        # every report must have been parsed: a lost FAIL line would be a silent miss
        if len(re.findall(r'"FAIL\|', r["out"])) != len(fails) or len(re.findall(r'"WARN\|', r["out"])) != len(warns):
            raise Infra("trace validation %s/%s: could not parse every FAIL/WARN report:\n%s" % (module, cfg, r["out"][-3000:]))
        if r["violated"] and not fails:
            raise Infra("trace validation %s/%s stopped with %s and no FAIL report:\n%s" % (module, cfg, r["violated"], r["out"][-4000:]))
        m = re.search(r'"CONSUMED\|(\d+)"', r["out"])
        consumed = int(m.group(1)) if m else -1
        if consumed != n:
            raise Infra("trace validation %s/%s consumed %d of %d lines:\n%s" % (module, cfg, consumed, n, r["out"][-4000:]))
        r["warns"] = warns
        self.events += n
        self.tlc_runs.append({"name": "trace:" + os.path.basename(tracefile), "module": module, "cfg": cfg,
                              "generated": r["generated"], "distinct": r["distinct"], "depth": r["depth"],
                              "wall_s": r["wall_s"], "lines": n, "fails": len(fails)})
        return fails, r

    # ------------------------------------------------------------- verdicts
    def replay_dir(self, tag):
        d = os.path.join(VERIF, "replays" if EVDIR.endswith("evidence") else "replays_mutants", self.pid, "%d-%s" % (self.seed, re.sub(r"[^A-Za-z0-9_.-]", "_", str(tag))[:80]))
        shutil.rmtree(d, ignore_errors=True)
        os.makedirs(d, exist_ok=True)
        return d

    def violation(self, what, files=None, tag=None, data=None):
        d = self.replay_dir(tag or ("v%d" % (len(self.violations) + 1)))
        for f in files or []:
            if f and os.path.exists(f):
                shutil.copy(f, d)
        info = {"property": self.pid, "what": what, "seed": self.seed, "tier": self.tier, "data": data}
        with open(os.path.join(d, "violation.json"), "w") as f:
            json.dump(info, f, indent=1, default=str)
        self.violations.append((what, d))
        return d

    def known_findings(self):
        p = os.path.join(VERIF, "known_findings.json")
        if not os.path.exists(p):
            return []
        with open(p) as f:
            return [x for x in json.load(f).get("findings", []) if x.get("property") == self.pid and x.get("kind") == "finding"]

    def classify(self, fails, keyfn):
        """Split failures into (known, new) using known_findings.json; keyfn(fail) -> class key string.
        A finding entry matches when its 'match' equals the key or is a prefix ending in '*'."""
        kf = self.known_findings()
        known, new = [], []
        for f in fails:
            k = keyfn(f)
            hit = None
            for x in kf:
                mt = x.get("match", "")
                if mt == k or (mt.endswith("*") and k.startswith(mt[:-1])):
                    hit = x
                    break
            (known if hit else new).append((f, k, hit))
        return known, new

    def finish(self):
        wall = round(time.time() - self.t0, 2)
        cov = {
            "states": int(self.states), "transitions": int(self.transitions),
            "traces_validated_against_impl": int(self.traces),
            "trace_events_validated": int(self.events),
            "evaluations": int(max(self.evaluations, self.traces)),
            "distinct_nontrivial": int(self.distinct),
            "rule": self.rule, "samples": self.samples[:6] or ["<none>"],
            "tlc_runs": self.tlc_runs, "exhaustive": bool(self.exhaustive),
            "trusted_base": self.trusted,
        }
        cov.update(self.extra)
        if self.level == "other":
            cov.setdefault("explanation", self.rule)
        ev = {"property_id": self.pid, "tier": self.tier, "seed": self.seed, "level": self.level,
              "coverage": cov, "assumptions": self.assumptions, "wall_s": wall,
              "violations": len(self.violations), "known_findings_seen": self.known}
        os.makedirs(EVDIR, exist_ok=True)
        with open(os.path.join(EVDIR, "%s.json" % self.pid), "w") as f:
            json.dump(ev, f, indent=1, default=str)
            f.write("\n")
        for k in self.known:
            print("KNOWN-FINDING: property=%s %s" % (self.pid, k))
        for what, d in self.violations:
            print("VIOLATION property=%s replay=%s" % (self.pid, d))
            print("  " + what[:1000])
        sys.stdout.flush()
        if self.violations:
            return 1
        print("OK property=%s tier=%s seed=%d states=%d traces=%d events=%d wall=%.1fs" % (
            self.pid, self.tier, self.seed, self.states, self.traces, self.events, wall))
        return 0


def main(pid, fn, level="model_checking"):
    """Entry used by every tools/checks/cNN.py."""
    import argparse
    ap = argparse.ArgumentParser()
    ap.add_argument("tier", nargs="?", default=None)
    ap.add_argument("--replay", default=None)
    a = ap.parse_args(sys.argv[2:] if len(sys.argv) > 1 and re.match(r"^[Cc]\d+$", sys.argv[1]) else sys.argv[1:])
    seed = None
    if a.replay:
        # a replay re-runs the check with the seed and tier recorded next to the failing case; the case files
        # (trace lines of the failing case, concrete inputs) are in the replay directory for inspection
        try:
            with open(os.path.join(a.replay, "violation.json")) as f:
                info = json.load(f)
            seed, a.tier = info.get("seed"), info.get("tier", a.tier)
            print("replaying %s with seed %s tier %s: %s" % (a.replay, seed, a.tier, str(info.get("what"))[:200]))
        except (OSError, ValueError) as x:
            print("INFRA: cannot read %s: %s" % (a.replay, x), file=sys.stderr)
            sys.exit(2)
    ctx = Ctx(pid, tier=a.tier, seed=seed, level=level)
    try:
        try:
            fn(ctx, a)
        except Hang:
            pass
        rc = ctx.finish()
    except Infra as x:
        print("INFRA: property=%s %s" % (pid, x), file=sys.stderr)
        rc = 2
    except subprocess.CalledProcessError as x:
        print("INFRA: property=%s %s" % (pid, x), file=sys.stderr)
        rc = 2
    sys.exit(rc)
