#!/bin/bash
# benignsome.sh <par> <checks> name... : stored behaviour-preserving changes against the named checks
P=$1; C=$2; shift; shift
cd "$(dirname "$0")/.."
for n in "$@"; do
  tools/benigntest.py benign/$n $n --par $P --checks $C 2>&1 | grep -E "^(BENIGN|CHECK|suite|DOES)" | cut -c1-400
done
