SPECIFICATION TraceSpec
INVARIANT Consumed
