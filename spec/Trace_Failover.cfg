SPECIFICATION TraceSpec
INVARIANT Consumed
