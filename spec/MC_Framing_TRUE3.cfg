SPECIFICATION Spec
CONSTANTS
  W = 4
  CopyFirst = TRUE
  MaxCuts = 3
  Streams <- MCStreams
INVARIANTS SegInd
CONSTRAINT Emit
