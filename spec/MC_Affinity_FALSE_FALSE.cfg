SPECIFICATION MCSpec
CONSTANTS
  Conns <- MCConns
  SentBy <- MCSentBy
  Txs <- MCTxs
  TxConn <- MCTxConn
  SharePerPeer = FALSE
  EqualSentBy = FALSE
VIEW PropView
INVARIANTS AffinityInv
