SPECIFICATION Spec
CONSTANTS
  RouteFirst = {"-", "hop1", "hop2.tcp", "hop4.name", "own.addr"}
  RouteRest = {"hop1"}
  MaxRoute = 2
  ViaLens = {0, 1, 2, 3}
  RRLens = {0, 1, 2, 3}
  ToClasses = {"exact", "wild", "none"}
  RuriClasses = {"lit", "foreign"}
  Keeps = {FALSE}
  LPorts = {5060}
  Pools = {"two"}
  Learns = {"none", "hop.p1", "hop.bk", "hop.p2", "hop.p1real"}
  MustRRs = {TRUE, FALSE}
  Recvs = {TRUE, FALSE}
  HdrOrders = {"std", "from1st", "mf1st", "nofrommf", "viaLast", "rr1st", "clenmid"}
  RportForms = {"none", "noport"}
  Kinds = {"req"}
  RespVias = {"own"}
  Statuses = {200}
INVARIANTS ReqOK RespOK
CONSTRAINT Emit
