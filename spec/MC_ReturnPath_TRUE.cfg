SPECIFICATION Spec
CONSTANTS
  Txs = {"t1", "t2"}
  Recv = TRUE
INVARIANTS ReturnPath
