SPECIFICATION TraceSpec
CONSTANT Focus = "C07"
INVARIANT Consumed
