----------------------------- MODULE Trace_Pins -----------------------------
(* Trace validation for the pin table (C15) against real time.              *)
(*                                                                          *)
(* The driver brackets every call with two clock readings [t0, t1]          *)
(* (microseconds since the start of the case); the code's own time.Now()    *)
(* lies in between.  The trace spec is PinsOps' rules with the instant      *)
(* existentially quantified over that bracket, solved analytically: an      *)
(* outcome is demanded only when it is the same for every instant of the    *)
(* bracket, so scheduling jitter can never produce an alarm.                *)
(*   lookup certainly hits   if t1 < lo + life   (lo..hi = bracket of Add)  *)
(*   lookup certainly misses if t0 > hi + life                              *)
(* Verdicts (P:) use only what the property talks about (hit/miss, which    *)
(* backend, which keys are still remembered); the stored expiry and sweep   *)
(* times are compared with the operational model as warnings (M:).          *)
EXTENDS PinsOps, TLC, Json, IOUtils

Trace == ndJsonDeserialize(IOEnv.TRACE_FILE)
VARIABLES l, st, mode
tvars == <<l, st, mode>>

Fresh(e) == [case |-> e.case, T |-> e.T,
             alive |-> [k \in {} |-> [b |-> "", lo |-> 0, hi |-> 0, life |-> 0]],   \* established, not terminated, not yet seen expired
             last  |-> [k \in {} |-> [hi |-> 0, life |-> 0]]]                      \* latest Add of every key that may still be in the table

OK(s)      == [ok |-> TRUE,  st |-> s, what |-> "", warn |-> ""]
Warn(s, w) == [ok |-> TRUE,  st |-> s, what |-> "", warn |-> w]
Bad(s, w)  == [ok |-> FALSE, st |-> s, what |-> w,  warn |-> ""]

Range(q) == {q[i] : i \in DOMAIN q}

\* Purged, in bracket form: a key still remembered after an Add at [t0,t1] must not have expired more than T before t0 for sure
PurgedOK(s, keys, t0) == \A x \in keys : x \in DOMAIN s.last /\ s.last[x].hi + s.last[x].life + s.T >= t0

Step(s, e) ==
  CASE e.ev = "add" ->
         LET life == Life(s.T, e.e)
             s1 == [s EXCEPT !.alive = Put(@, e.k, [b |-> e.b, lo |-> e.t0, hi |-> e.t1, life |-> life]),
                             !.last  = Put(@, e.k, [hi |-> e.t1, life |-> life])]
             keys == Range(e.keys)
         IN IF \E x \in keys : x \notin DOMAIN s1.last THEN Bad(s, "P:remembers-a-key-that-was-never-pinned-or-was-terminated")
            ELSE IF ~PurgedOK(s1, keys, e.t0) THEN Bad(s, "P:Purged")
            ELSE IF e.k \notin keys THEN Bad(s, "P:Honoured-new-pin-not-stored")
            ELSE IF e.exp < 1000000000 /\ (e.exp < e.t0 + life \/ e.exp > e.t1 + life) THEN Warn(s1, "M:stored-expiry")
            ELSE IF e.nc < 1000000000 /\ e.nc > e.t1 + s.T THEN Warn(s1, "M:sweep-rearmed-beyond-one-timeout")
            ELSE OK(s1)
    [] e.ev = "get" ->
         IF e.k \notin DOMAIN s.alive
         THEN IF e.hit THEN Bad(s, "P:Forgotten-or-Terminated-hit-without-live-pin") ELSE OK(s)
         ELSE LET a == s.alive[e.k]
                  mustHit  == e.t1 < a.lo + a.life
                  mustMiss == e.t0 > a.hi + a.life
              IN IF mustHit /\ ~e.hit THEN Bad(s, "P:Honoured")
                 ELSE IF mustMiss /\ e.hit THEN Bad(s, "P:Forgotten")
                 ELSE IF e.hit /\ e.b # a.b THEN Bad(s, "P:Honoured-wrong-backend")
                 ELSE IF ~e.hit THEN OK([s EXCEPT !.alive = Drop(@, e.k)])
                 ELSE OK(s)
    [] e.ev = "rm" ->
         OK([s EXCEPT !.alive = Drop(@, e.k), !.last = Drop(@, e.k)])
    [] OTHER -> Bad(s, "DRIVER:unknown-event")

TraceInit == l = 1 /\ mode = "skip" /\ st = Fresh([case |-> "", T |-> 0])

TraceNext ==
  /\ l <= Len(Trace)
  /\ l' = l + 1
  /\ LET e == Trace[l] IN
     IF e.ev = "reset" THEN st' = Fresh(e) /\ mode' = "run"
     ELSE IF mode = "skip" THEN UNCHANGED <<st, mode>>
     ELSE LET r == Step(st, e) IN
          IF r.ok
          THEN /\ st' = r.st /\ mode' = "run"
               /\ (r.warn # "" => PrintT("WARN|" \o ToString(l) \o "|" \o st.case \o "|" \o r.warn \o "|"))
          ELSE /\ PrintT("FAIL|" \o ToString(l) \o "|" \o st.case \o "|" \o r.what \o "|")
               /\ mode' = "skip" /\ UNCHANGED st

TraceSpec == TraceInit /\ [][TraceNext]_tvars
Consumed == (l = Len(Trace) + 1) => PrintT("CONSUMED|" \o ToString(Len(Trace)))
=============================================================================
