SPECIFICATION MCSpec
CONSTANTS
  Dialogs = {"d1", "d2", "d3"}
  Backs = {"b1", "b2", "b3"}
  BackSeq <- MCBackSeq
  MethodExcluded = FALSE
  PurgeEvictsLive = FALSE
  ExpiresIgnored = FALSE
  RejectUnpins = FALSE
  MaxOps = 12
  MaxTimeouts = 1
INVARIANTS EmitInv
