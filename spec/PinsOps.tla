------------------------------ MODULE PinsOps ------------------------------
(* Pure part of the pin table (backend.go, DialogBasedBackend): dialog and  *)
(* client-transaction pins with a lifetime, lazy deletion on lookup and a   *)
(* sweep that runs inside Add when it is due.  Time is an integer.          *)
EXTENDS Integers, Sequences, FiniteSets

Max(a, b) == IF a > b THEN a ELSE b

\* lifetime promised by an Add: the configured timeout, or Expires if larger (backend.go:437-440)
Life(T, e) == IF e > T THEN e ELSE T

Restrict(f, S) == [x \in S |-> f[x]]
Put(f, k, v) == [x \in DOMAIN f \cup {k} |-> IF x = k THEN v ELSE f[x]]
Drop(f, k) == Restrict(f, DOMAIN f \ {k})

\* cleanExpiredDialog (backend.go:453-464): entries whose expiry is before now go
SweepAt(p, now) == Restrict(p, {k \in DOMAIN p : ~(p[k].exp < now)})

\* AddBackend (backend.go:436-447).  s = [pins, nc].  RearmFixed selects the repaired re-arming rule
\* (next sweep one timeout from now) against the pinned one (the new entry's own expiry, defect D10).
AddAt(s, k, b, e, now, T, RearmFixed) ==
    LET exp == now + Life(T, e)
        p1  == Put(s.pins, k, [b |-> b, exp |-> exp])
    IN IF s.nc < now
       THEN [pins |-> SweepAt(p1, now), nc |-> IF RearmFixed THEN now + T ELSE exp]
       ELSE [pins |-> p1, nc |-> s.nc]

\* GetBackend (backend.go:425-434): a live entry is returned, an expired one is deleted
Hit(s, k, now) == k \in DOMAIN s.pins /\ s.pins[k].exp > now
GetAt(s, k, now) == IF k \in DOMAIN s.pins /\ ~(s.pins[k].exp > now)
                    THEN [s EXCEPT !.pins = Drop(s.pins, k)] ELSE s

\* RemoveDialog
RemoveAt(s, k) == [s EXCEPT !.pins = Drop(s.pins, k)]
=============================================================================
