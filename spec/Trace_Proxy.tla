----------------------------- MODULE Trace_Proxy -----------------------------
(***************************************************************************)
(* Trace validation of the proxy pipeline (leg T).  One "step" line per     *)
(* loop iteration: the abstract message that went in, the environment, and  *)
(* everything that came out (at Backend doubles and at loopback sockets).   *)
(* Focus selects which property's relation is the GUARANTEE that is judged; *)
(* everything else the step shows (where it went when judging C06, whether  *)
(* the own Route entry was consumed when judging C03 ...) is read from the  *)
(* log - one seeded change, one alarm (DESIGN.md 4.4).                      *)
(* The learned table is tracked by the declarative learning rule of C06     *)
(* from the observed inputs; the operational model (ProxyOper) is compared  *)
(* with what the code did only as a warning.                                *)
(***************************************************************************)
EXTENDS ProxyOper, ProxyJudge, ConfigOps, Json, IOUtils

CONSTANT Focus
Trace == ndJsonDeserialize(IOEnv.TRACE_FILE)
VARIABLES l, cfg, learned
tvars == <<l, cfg, learned>>

\* a case that was configured with host tables (service level / top level) resolves aliases through them
ResolvOf(e) == IF "hosts" \in DOMAIN cfg THEN HostTable(cfg.hosts.svc, cfg.hosts.global) @@ e.resolv ELSE e.resolv
EnvOf(e) ==
    LET P == cfg.proxies[e.pi] IN
    [ keep |-> (IF "keep_cfg" \in DOMAIN cfg THEN EffKeep(cfg.keep_cfg) ELSE cfg.keep), names |-> cfg.names, static |-> cfg.static, resolv |-> ResolvOf(e), rx |-> e.rx, tohost |-> e.tohost,
      L |-> cfg.all[e.lid], trans |-> [i \in DOMAIN P.trans |-> cfg.all[P.trans[i]]], all |-> cfg.all,
      mustrr |-> P.mustrr, recv |-> (IF "recv_cfg" \in DOMAIN P THEN EffRecvKey(P.recv_cfg) ELSE P.recv), src |-> e.src, learned |-> learned, pool |-> Range(e.pool) ]

Verdicts(e) ==
    LET env == EnvOf(e)  m == e.inmsg  outs == e.outs IN
    IF e.panic # "" THEN <<"P:" \o Focus \o ":panic">>
    ELSE IF e.stuck THEN <<"P:" \o Focus \o ":message-loop-stalled">>
    ELSE IF m.kind = "req"
    THEN SelectSeq(<< IF Focus = "C03" THEN JudgeC03(env, m, outs) ELSE "",
                      IF Focus = "C13" THEN JudgeC13(env, m, outs) ELSE "",
                      IF Focus = "C06" THEN JudgeC06(env, m, outs) ELSE "",
                      IF Focus = "C07" THEN JudgeC07(env, m, outs) ELSE "",
                      IF Focus = "C01" THEN JudgeC01(m, outs) ELSE "" >>, LAMBDA v : v # "")
    ELSE SelectSeq(<< IF Focus = "C02" THEN JudgeC02(env, m, outs) ELSE "",
                      IF Focus = "C01" THEN JudgeC01(m, outs) ELSE "" >>, LAMBDA v : v # "")

\* model deviation: the code did something else than the operational model (informational)
ModelOuts(e) == LET env == EnvOf(e) IN
                IF e.inmsg.kind = "req"
                THEN ORequest(env, e.inmsg, IF Len(e.outs) = 1 /\ e.outs[1].kind = "backend" THEN e.outs[1].addr ELSE IF e.pool = <<>> THEN "" ELSE e.pool[1]).outs
                ELSE OResponse(env, e.inmsg)
Deviates(e) == LET mo == ModelOuts(e) IN
               \/ Len(mo) # Len(e.outs)
               \/ Len(mo) = 1 /\ (mo[1].kind # e.outs[1].kind \/ (mo[1].kind = "sink" /\ (mo[1].ip # e.outs[1].ip \/ mo[1].port # e.outs[1].port \/ mo[1].proto # e.outs[1].proto)))

TraceInit == l = 1 /\ cfg = [none |-> TRUE] /\ learned = <<>>
TraceNext ==
  /\ l <= Len(Trace) /\ l' = l + 1
  /\ LET e == Trace[l] IN
     IF e.ev = "reset" THEN cfg' = e.cfg /\ learned' = <<>>
     ELSE /\ cfg' = cfg
          /\ learned' = IF e.inmsg.kind = "req" /\ e.panic = "" THEN LearnNow(EnvOf(e), e.inmsg) ELSE learned
          /\ LET vs == Verdicts(e) IN
             IF vs # <<>> THEN PrintT("FAIL|" \o ToString(l) \o "|" \o e.case \o "|" \o vs[1] \o "|" \o e.cls)
             ELSE IF e.panic = "" /\ ~e.stuck /\ Deviates(e) THEN PrintT("WARN|" \o ToString(l) \o "|" \o e.case \o "|M:outputs-differ-from-operational-model|" \o e.cls)
             ELSE TRUE
TraceSpec == TraceInit /\ [][TraceNext]_tvars
Consumed == (l = Len(Trace) + 1) => PrintT("CONSUMED|" \o ToString(Len(Trace)))
=============================================================================
