----------------------------- MODULE StaticOps -----------------------------
(* Static route lookup (preconfig_route.go) - pure operators.               *)
(* Patterns and hosts are sequences of one-character strings (TLC cannot    *)
(* index into strings).  A table is a sequence of entries                   *)
(*    [pat, proto, nhost, nport]   (nport = 0: next hop written without a   *)
(* port) in configuration order, patterns pairwise distinct.                *)
EXTENDS Integers, Sequences, FiniteSets

DEFAULT == <<"d","e","f","a","u","l","t">>

---------------------------------------------------------------------------
(* Declarative meaning of a pattern (property text): '*' stands for any     *)
(* character sequence, every other character - '.' included - for itself.   *)
RECURSIVE Glob(_, _)
Glob(p, h) == IF p = <<>> THEN h = <<>>
              ELSE IF Head(p) = "*" THEN Glob(Tail(p), h) \/ (h # <<>> /\ Glob(p, Tail(h)))
              ELSE h # <<>> /\ Head(p) = Head(h) /\ Glob(Tail(p), Tail(h))

\* port of a next hop: explicit, else 5060, else 5061 for tls
HopPort(proto, nport) == IF nport # 0 THEN nport ELSE IF proto \in {"tls", "TLS", "Tls"} THEN 5061 ELSE 5060
Answer(e) == [found |-> TRUE, proto |-> e.proto, host |-> e.nhost, port |-> HopPort(e.proto, e.nport)]
NoRoute == [found |-> FALSE, proto |-> "", host |-> <<>>, port |-> 0]

Entries(t) == {t[i] : i \in DOMAIN t}
\* the set of answers the property allows for host h
Admissible(t, h) ==
    LET exact == {e \in Entries(t) : e.pat = h}
        globs == {e \in Entries(t) : Glob(e.pat, h)}
        defs  == {e \in Entries(t) : e.pat = DEFAULT}
    IN IF exact # {} THEN {Answer(e) : e \in exact}
       ELSE IF globs # {} THEN {Answer(e) : e \in globs}
       ELSE IF defs # {} THEN {Answer(e) : e \in defs}
       ELSE {NoRoute}

---------------------------------------------------------------------------
(* Operational lookup, shaped like the code: the pattern is translated to   *)
(* an anchored regular expression ('.' escaped, '*' -> '.*') and matched.   *)
(* Regex tokens: [k |-> "lit", c |-> ch], [k |-> "any*"].                   *)
ToRegex(p) == [i \in DOMAIN p |-> IF p[i] = "*" THEN [k |-> "any*", c |-> ""] ELSE [k |-> "lit", c |-> p[i]]]
RECURSIVE RxMatch(_, _)
RxMatch(r, h) == IF r = <<>> THEN h = <<>>
                 ELSE IF Head(r).k = "any*" THEN RxMatch(Tail(r), h) \/ (h # <<>> /\ RxMatch(r, Tail(h)))
                 ELSE h # <<>> /\ Head(r).c = Head(h) /\ RxMatch(Tail(r), Tail(h))

FirstIdx(t, P(_)) == IF \E i \in DOMAIN t : P(t[i])
                     THEN CHOOSE i \in DOMAIN t : P(t[i]) /\ \A j \in DOMAIN t : j < i => ~P(t[j])
                     ELSE 0
\* FindRoute after the D9 repair: exact, then the first matching pattern in configuration order, then default
Lookup(t, h) ==
    LET i1 == FirstIdx(t, LAMBDA e : e.pat = h)
        i2 == FirstIdx(t, LAMBDA e : RxMatch(ToRegex(e.pat), h))
        i3 == FirstIdx(t, LAMBDA e : e.pat = DEFAULT)
    IN IF i1 # 0 THEN Answer(t[i1]) ELSE IF i2 # 0 THEN Answer(t[i2]) ELSE IF i3 # 0 THEN Answer(t[i3]) ELSE NoRoute
=============================================================================
