SPECIFICATION Spec
CONSTANTS
  W = 4
  CopyFirst = TRUE
  MaxCuts = 2
  Streams <- MCStreams
INVARIANTS Reach_LongLine
