SPECIFICATION EmitSpec
CONSTANTS Pinned = FALSE  Small = FALSE
CONSTRAINT Emit
