---------------------------- MODULE Trace_Threads ----------------------------
(* Trace validation for C09 (probe runs): one line per load phase.           *)
(*   alive    : after the load a sentinel passes through every listener      *)
(*              (including the one whose only backend came and went)         *)
(*   churn_stuck : a membership change (resolver outcome -> add / remove)    *)
(*              did not return within 30 s                                   *)
(*   overlap  : brackets of two threads on the learnt-route table overlapped  *)
(*   dup      : a request reached more than one backend                       *)
(*   missing / noresp / route_missing : a request did not reach a backend /   *)
(*              its response did not return to the sender / a routed request  *)
(*              did not reach its next hop - claimed in phases without        *)
(*              membership churn only (a dispatch racing with the removal of  *)
(*              the backend it chose is not charged)                          *)
EXTENDS Integers, Sequences, TLC, Json, IOUtils
Trace == ndJsonDeserialize(IOEnv.TRACE_FILE)
VARIABLE l
Verdict(e) ==
    IF e.churn_stuck THEN "P:C09:backend-membership-change-never-completed"
    ELSE IF ~e.alive THEN "P:C09:proxy-deadlocked-or-stalled-under-load"
    ELSE IF e.overlap > 0 THEN "P:C09:two-threads-inside-the-learnt-route-table-at-once"
    ELSE IF e.dup > 0 THEN "P:C09:request-delivered-to-more-than-one-backend"
    ELSE IF ~e.churn /\ e.missing > 0 THEN "P:C09:request-lost"
    ELSE IF ~e.churn /\ e.noresp > 0 THEN "P:C09:response-did-not-return-to-its-sender"
    ELSE IF ~e.churn /\ e.route_missing > 0 THEN "P:C09:routed-request-lost"
    ELSE ""
TraceInit == l = 1
TraceNext == /\ l <= Len(Trace) /\ l' = l + 1
             /\ LET e == Trace[l]  v == Verdict(e) IN
                  IF v # "" THEN PrintT("FAIL|" \o ToString(l) \o "|" \o e.case \o "|" \o v \o "|" \o e.cls) ELSE TRUE
TraceSpec == TraceInit /\ [][TraceNext]_l
Consumed == (l = Len(Trace) + 1) => PrintT("CONSUMED|" \o ToString(Len(Trace)))
=============================================================================
