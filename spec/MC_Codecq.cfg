SPECIFICATION Spec
CONSTANTS MaxUP = 2  MaxHP = 2  MaxVia = 2  MaxVP = 2
INVARIANTS Laws
CONSTRAINT Emit
