---------------------------- MODULE Trace_Framing ----------------------------
(* Trace validation for C11 (and the decode half of C10): one line per run of *)
(* the real ParseMessage over a segmented byte stream.  The driver reports    *)
(* the abstract messages it concatenated (expected: what the bytes denote,    *)
(* read by alpha) and what the real parser extracted before the stream ended  *)
(* or the connection was closed.  SegInd: extracted = expected, in order,     *)
(* each with its exact start line, headers and body, and no premature close.  *)
EXTENDS Integers, Sequences, FiniteSets, TLC, Json, IOUtils
Trace == ndJsonDeserialize(IOEnv.TRACE_FILE)
VARIABLE l
Verdict(e) ==
    IF e.panic # "" THEN "P:" \o e.prop \o ":panic"
    ELSE IF e.got = e.want THEN ""
    ELSE IF Len(e.got) < Len(e.want) /\ SubSeq(e.want, 1, Len(e.got)) = e.got
         THEN "P:" \o e.prop \o ":stream-abandoned-before-all-messages-were-extracted"
    ELSE IF Len(e.got) > Len(e.want) /\ SubSeq(e.got, 1, Len(e.want)) = e.want THEN "P:" \o e.prop \o ":more-messages-extracted-than-the-bytes-contain"
    ELSE "P:" \o e.prop \o ":extracted-message-differs-from-the-bytes"
TraceInit == l = 1
TraceNext == /\ l <= Len(Trace) /\ l' = l + 1
             /\ LET e == Trace[l]  v == Verdict(e) IN
                  IF v # "" THEN PrintT("FAIL|" \o ToString(l) \o "|" \o e.case \o "|" \o v \o "|" \o e.cls) ELSE TRUE
TraceSpec == TraceInit /\ [][TraceNext]_l
Consumed == (l = Len(Trace) + 1) => PrintT("CONSUMED|" \o ToString(Len(Trace)))
=============================================================================
