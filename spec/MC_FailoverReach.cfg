SPECIFICATION Spec
INVARIANTS Reach_Failover
