SPECIFICATION Spec
CONSTANTS Guarded = FALSE  MaxLen = 3
INVARIANTS NeverCrash
