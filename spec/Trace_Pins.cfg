SPECIFICATION TraceSpec
INVARIANT Consumed
