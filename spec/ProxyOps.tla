------------------------------ MODULE ProxyOps ------------------------------
(***************************************************************************)
(* The message pipeline of the proxy on abstract messages - pure operators. *)
(*                                                                          *)
(* A message is [kind, method, status, start, ruri, hdrs, body, blen];      *)
(* hdrs is the ordered list of header LINES  [cls, nm, val, ents]: the      *)
(* routing headers (via, route, rr) and From/To carry their decoded entries *)
(* - one record shape for all of them:                                      *)
(*   [proto, host, port, rport, params, disp, uri, hparams, bad]            *)
(* uri = [scheme, user, pass, host, port, params, hdrs, opaque, raw].       *)
(* Parameters are sequences of <<key, value>>; "<novalue>" marks a          *)
(* parameter written without '='.  Everything opaque is an interned id.     *)
(*                                                                          *)
(* Part 1: operational operators, one per Go function (line-level, as the   *)
(*         code works on header LINES).                                     *)
(* Part 2: declarative relations of the properties on FLATTENED stacks,     *)
(*         written from the property texts.                                 *)
(***************************************************************************)
EXTENDS Integers, Sequences, FiniteSets, TLC

NoVal == "<novalue>"
Range(s) == {s[i] : i \in DOMAIN s}
RemoveAt(s, i) == SubSeq(s, 1, i - 1) \o SubSeq(s, i + 1, Len(s))
InsertAt(s, i, x) == SubSeq(s, 1, i - 1) \o <<x>> \o SubSeq(s, i, Len(s))
Min2(a, b) == IF a < b THEN a ELSE b

RECURSIVE FlatSeq(_)
FlatSeq(ss) == IF ss = <<>> THEN <<>> ELSE Head(ss) \o FlatSeq(Tail(ss))

HasCls(hs, c) == \E i \in DOMAIN hs : hs[i].cls = c
FirstPos(hs, c) == CHOOSE i \in DOMAIN hs : hs[i].cls = c /\ \A j \in DOMAIN hs : j < i => hs[j].cls # c
LinesOf(hs, c) == SelectSeq(hs, LAMBDA h : h.cls = c)
\* flattened list of entries of all lines of class c, in order
Flat(hs, c) == FlatSeq([i \in DOMAIN LinesOf(hs, c) |-> LinesOf(hs, c)[i].ents])
\* the header lines the proxy does not manage, as <<name, value>>
Managed == {"via", "route", "rr", "clen"}
Others(hs) == LET o == SelectSeq(hs, LAMBDA h : h.cls \notin Managed)
              IN [i \in DOMAIN o |-> <<o[i].nm, o[i].val>>]

ParamOf(ps, k) == IF \E i \in DOMAIN ps : ps[i][1] = k
                  THEN ps[CHOOSE i \in DOMAIN ps : ps[i][1] = k /\ \A j \in DOMAIN ps : j < i => ps[j][1] # k][2]
                  ELSE "<absent>"
HasParam(ps, k) == \E i \in DOMAIN ps : ps[i][1] = k
SetParam(ps, k, v) == IF HasParam(ps, k)
                      THEN [i \in DOMAIN ps |-> IF ps[i][1] = k /\ (\A j \in DOMAIN ps : j < i => ps[j][1] # k) THEN <<k, v>> ELSE ps[i]]
                      ELSE Append(ps, <<k, v>>)

---------------------------------------------------------------------------
(* Part 1 - operational (message.go)                                        *)

\* PopVia / PopRoute (message.go:436-449, 359-372): pop inside the first line if it has >1 entry, else delete the line
PopCls(hs, c) == IF ~HasCls(hs, c) THEN hs
                 ELSE LET i == FirstPos(hs, c) IN
                      IF Len(hs[i].ents) > 1 THEN [hs EXCEPT ![i].ents = Tail(@)] ELSE RemoveAt(hs, i)

NewLine(c, e) == [cls |-> c, nm |-> IF c = "via" THEN "Via" ELSE "Record-Route", cn |-> IF c = "via" THEN "via" ELSE "record-route", val |-> "", ents |-> <<e>>]
\* AddVia (message.go:374-391): a new line in front of the first Via line, or at the very top
PushVia(hs, e) == InsertAt(hs, IF HasCls(hs, "via") THEN FirstPos(hs, "via") ELSE 1, NewLine("via", e))
\* AddRecordRoute (message.go:483-511)
RRPos(hs) == IF HasCls(hs, "rr") THEN FirstPos(hs, "rr")
             ELSE IF HasCls(hs, "from") /\ HasCls(hs, "maxfwd") THEN Min2(FirstPos(hs, "from"), FirstPos(hs, "maxfwd"))
             ELSE IF HasCls(hs, "from") THEN FirstPos(hs, "from")
             ELSE IF HasCls(hs, "maxfwd") THEN FirstPos(hs, "maxfwd")
             ELSE 1
PushRR(hs, e) == InsertAt(hs, RRPos(hs), NewLine("rr", e))

\* SetReceived (message.go:602-617, via.go): received set/overwritten on the first entry of the first Via line;
\* rport overwritten only when present
StampTop(hs, ip, port) ==
    IF ~HasCls(hs, "via") THEN hs
    ELSE LET i == FirstPos(hs, "via")
             e == hs[i].ents[1]
             p1 == SetParam(e.params, "received", ip)
             p2 == IF HasParam(p1, "rport") THEN SetParam(p1, "rport", port) ELSE p1
         IN [hs EXCEPT ![i].ents[1].params = p2]

\* Write (message.go:513-556): every Content-Length line is dropped and one computed line is appended
EmitHdrs(hs, blen) == SelectSeq(hs, LAMBDA h : h.cls # "clen")
                      \o <<[cls |-> "clen", nm |-> "Content-Length", cn |-> "content-length", val |-> blen, ents |-> <<>>]>>

---------------------------------------------------------------------------
(* Part 2 - declarative vocabulary                                          *)

ViaStack(m)   == Flat(m.hdrs, "via")
RouteStack(m) == Flat(m.hdrs, "route")
RRStack(m)    == Flat(m.hdrs, "rr")

IsSip(u) == u.scheme \in {"sip", "sips"}
UriTransport(u) == IF HasParam(u.params, "transport") THEN ParamOf(u.params, "transport") ELSE "udp"
UriPort(u) == IF u.port # 0 THEN u.port ELSE IF UriTransport(u) = "tls" THEN 5061 ELSE 5060
ViaPort(e) == IF e.port # 0 THEN e.port ELSE IF e.proto = "TLS" THEN 5061 ELSE 5060

\* Via entries are compared modulo the documented normalisation: an absent port and the default port are the same
ViaEq(a, b) == a.proto = b.proto /\ a.host = b.host /\ ViaPort(a) = ViaPort(b) /\ a.params = b.params /\ a.bad = b.bad
ViaSeqEq(s, t) == Len(s) = Len(t) /\ \A i \in DOMAIN s : ViaEq(s[i], t[i])
\* Route / Record-Route entries: display name, every URI component, every parameter, in order
RtEq(a, b) == a.disp = b.disp /\ a.uri = b.uri /\ a.hparams = b.hparams /\ a.bad = b.bad
RtSeqEq(s, t) == Len(s) = Len(t) /\ \A i \in DOMAIN s : RtEq(s[i], t[i])

\* C02 / C07: where a response goes, from the Via entry that is on top once the proxy's own entry is popped
\* (the abstraction reports the numeric value of an rport parameter as the integer field rport, 0 = none / not numeric)
RespHop(e) ==
    IF HasParam(e.params, "received") /\ ParamOf(e.params, "received") # NoVal
    THEN [host |-> ParamOf(e.params, "received"), port |-> IF e.rport > 0 THEN e.rport ELSE ViaPort(e), proto |-> e.proto]
    ELSE [host |-> e.host, port |-> ViaPort(e), proto |-> e.proto]

\* C01: what relaying must leave untouched
P01(m) == [start |-> m.start, rest |-> Others(m.hdrs), body |-> m.body, blen |-> m.blen]
ClenLines(m) == LinesOf(m.hdrs, "clen")

\* C06: the Via / Record-Route the proxy writes for listener transport t = [proto, addr, port]
OwnViaOK(e, t) == e.proto = t.proto /\ e.host = t.addr /\ e.port = t.port /\ ~e.bad
                  /\ Len(e.params) = 1 /\ e.params[1][1] = "branch"
OwnRROK(e, t) == /\ e.disp = "" /\ e.hparams = <<>> /\ ~e.bad
                 /\ e.uri.scheme = "sip" /\ e.uri.user = "" /\ e.uri.pass = "" /\ e.uri.host = t.addr /\ e.uri.port = t.port
                 /\ e.uri.params = << <<"lr", NoVal>> >> /\ e.uri.hdrs = <<>>

\* C13: consume the own entry only; keep or strip the next hop
RouteExpect(r, own, keep) == LET r1 == IF own THEN Tail(r) ELSE r
                             IN IF r1 = <<>> THEN <<>> ELSE IF keep THEN r1 ELSE Tail(r1)

\* C16 reduced URI for the dialog identity
DlgUri(u) == IF IsSip(u) THEN <<u.scheme, u.user, u.pass, u.host, u.port>> ELSE <<u.scheme, u.opaque>>
TagOf(e) == ParamOf(e.hparams, "tag")
\* The host tables of the configuration (main.go createPreConfigHostResolver): a name declared in the table of the
\* service AND in the top-level table shared by all services means what the service's own table says.
HostTable(svc, global) == svc @@ global
=============================================================================
