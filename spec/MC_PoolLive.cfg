SPECIFICATION ConcFair
CONSTANTS
  Addrs = {"a1","a2"}
  Threads = {"t1","t2"}
  MaxOps = 0
  MaxDisp = 3
  MaxChg = 3
PROPERTIES Completes
