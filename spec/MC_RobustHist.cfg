SPECIFICATION Spec
CONSTANTS Guarded = TRUE  MaxLen = 3
INVARIANTS NeverCrash
CONSTRAINT Emit
