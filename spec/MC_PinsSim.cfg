SPECIFICATION MCSpec
CONSTANTS
  Keys = {"k1","k2","k3"}
  Backs = {"b1","b2"}
  T = 2
  ExpVals = {0, 3, 1000}
  MaxNow = 30
  RearmFixed = TRUE
  MaxOps = 14
INVARIANTS EmitInv
