SPECIFICATION Spec
CONSTANT Guarded = FALSE
INVARIANTS NeverCrash
