SPECIFICATION TraceSpec
INVARIANT Consumed
