SPECIFICATION TraceSpec
INVARIANT Consumed
