------------------------------ MODULE Affinity ------------------------------
(***************************************************************************)
(* TCP connection affinity of responses (C12): the transport table of       *)
(* ClientTransportMgr (transport.go:201-294) as the proxy uses it.          *)
(*   handleRawMessage (proxy.go:250-265): a request that arrived on TCP     *)
(*     connection c registers c as PRIMARY of the fail-over transport stored *)
(*     under  tcp://<response hop of the request>-<CSeq method>-<branch>;    *)
(*   sendMessage (640-658): a response looks up  tcp://<its next hop>-<CSeq  *)
(*     method>-<branch>, a final response deletes the entry, then the        *)
(*     fail-over transport sends: primary if there is one, else the shared   *)
(*     reconnectable secondary of that host:port (= a NEW connection).       *)
(* Entries are objects: per-transaction entries are fresh fail-over objects  *)
(* that share only the secondary of the base entry of their host:port.       *)
(* SharePerPeer = TRUE models a design in which all transactions towards one *)
(* host:port share ONE object (so a later request overwrites the primary) -  *)
(* TLC must find the violation there.                                        *)
(***************************************************************************)
EXTENDS Integers, Sequences, FiniteSets, TLC

CONSTANTS Conns,          \* client connections (all from one address)
          SentBy,         \* SentBy[c] : the host:port the requests of c announce (may be equal across connections)
          Txs,            \* transactions; TxConn[t] is the connection that sends t
          TxConn,
          SharePerPeer

VARIABLES tab,      \* key -|-> object id          key = <<hostport, tx>> or <<hostport, "base">>
          prim,     \* object id -> connection or "none"
          nobj,     \* number of objects created
          state,    \* state[t] \in {"new", "sent", "prov", "done"}
          arrived,  \* history: t -> connection the request used
          deliv     \* history: set of [t, via] - where each response went (a connection, or "NEW")

vars == <<tab, prim, nobj, state, arrived, deliv>>
Put(f, k, v) == [x \in DOMAIN f \cup {k} |-> IF x = k THEN v ELSE f[x]]
Drop(f, k) == [x \in DOMAIN f \ {k} |-> f[x]]

Key(c, t) == <<SentBy[c], IF SharePerPeer THEN "base" ELSE t>>

Init == /\ tab = <<>> /\ prim = <<>> /\ nobj = 0
        /\ state = [t \in Txs |-> "new"] /\ arrived = <<>> /\ deliv = {}

\* GetTransport: existing entry, or a new object (createClientTransport)
Lookup(k) == IF k \in DOMAIN tab THEN [obj |-> tab[k], tab |-> tab, prim |-> prim, n |-> nobj]
             ELSE [obj |-> nobj + 1, tab |-> Put(tab, k, nobj + 1), prim |-> Put(prim, nobj + 1, "none"), n |-> nobj + 1]

Request(t) == LET c == TxConn[t]  r == Lookup(Key(c, t)) IN
              /\ state[t] = "new"
              /\ tab' = r.tab /\ nobj' = r.n
              /\ prim' = [r.prim EXCEPT ![r.obj] = c]                 \* trans.primary = the inbound connection
              /\ state' = [state EXCEPT ![t] = "sent"]
              /\ arrived' = Put(arrived, t, c)
              /\ UNCHANGED deliv

Respond(t, final) ==
    LET c == TxConn[t]  r == Lookup(Key(c, t))
        dest == IF r.prim[r.obj] # "none" THEN r.prim[r.obj] ELSE "NEW"
    IN /\ state[t] \in (IF final THEN {"sent", "prov"} ELSE {"sent"})     \* at most one provisional response per transaction in this model
       /\ nobj' = r.n /\ prim' = r.prim
       /\ tab' = IF final THEN Drop(r.tab, Key(c, t)) ELSE r.tab          \* RemoveTransport before the send
       /\ deliv' = deliv \cup {[t |-> t, via |-> dest]}
       /\ state' = [state EXCEPT ![t] = IF final THEN "done" ELSE "prov"]
       /\ UNCHANGED arrived

Next == \E t \in Txs : Request(t) \/ Respond(t, TRUE) \/ Respond(t, FALSE)
Spec == Init /\ [][Next]_vars

\* C12: provisional responses and the first final response of a transaction are written to the connection its request used
AffinityInv == \A d \in deliv : d.via = arrived[d.t]
=============================================================================
