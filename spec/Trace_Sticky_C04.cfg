SPECIFICATION TraceSpec
CONSTANT Focus = "C04"
INVARIANT Consumed
