SPECIFICATION TraceSpec
INVARIANT Consumed
