SPECIFICATION Spec
CONSTANTS MaxEntries = 3
INVARIANTS LookupAdmissible RegexIsGlob
CONSTRAINT Emit
