--------------------------- MODULE Trace_Affinity ---------------------------
(* Trace validation for C12: requests written on real client connections to  *)
(* a real TCP listener, backend responses injected in the generated order;   *)
(* each "resp" line says where the relayed response was read (a client       *)
(* connection, or a NEW connection accepted by the stray catcher on the      *)
(* announced sent-by address).  History variable arrived: tx -> connection.  *)
EXTENDS Integers, Sequences, FiniteSets, TLC, Json, IOUtils
CONSTANT Prop      \* the property whose check runs this validation ("C12"; "C02" for the TCP half of the return path)
Trace == ndJsonDeserialize(IOEnv.TRACE_FILE)
VARIABLES l, arrived, finaled
tvars == <<l, arrived, finaled>>
Put(f, k, v) == [x \in DOMAIN f \cup {k} |-> IF x = k THEN v ELSE f[x]]

Verdict(e) ==
    IF e.ev = "req" THEN (IF e.panic # "" THEN "P:" \o Prop \o ":panic" ELSE IF e.stuck THEN "P:" \o Prop \o ":message-loop-stalled" ELSE "")
    ELSE IF e.panic # "" THEN "P:" \o Prop \o ":panic"
    ELSE IF e.t \notin DOMAIN arrived \/ e.t \in finaled THEN ""          \* only provisional responses and the first final response are claimed
    ELSE IF Len(e.got) = 0 THEN "P:" \o Prop \o ":response-not-written-to-the-connection-the-request-used"
    ELSE IF Len(e.got) > 1 THEN "P:" \o Prop \o ":response-written-more-than-once"
    ELSE IF e.got[1] = arrived[e.t] THEN ""
    ELSE IF e.got[1] = "NEW" THEN "P:" \o Prop \o ":response-sent-on-a-new-connection"
    ELSE "P:" \o Prop \o ":response-written-to-another-clients-connection"

TraceInit == l = 1 /\ arrived = <<>> /\ finaled = {}
TraceNext ==
  /\ l <= Len(Trace) /\ l' = l + 1
  /\ LET e == Trace[l] IN
     IF e.ev = "reset" THEN arrived' = <<>> /\ finaled' = {}
     ELSE /\ arrived' = IF e.ev = "req" /\ e.dispatched THEN Put(arrived, e.t, e.conn) ELSE arrived
          /\ finaled' = IF e.ev = "resp" /\ e.final THEN finaled \cup {e.t} ELSE finaled
          /\ LET v == Verdict(e) IN
             IF v # "" THEN PrintT("FAIL|" \o ToString(l) \o "|" \o e.case \o "|" \o v \o "|" \o e.cls) ELSE TRUE
TraceSpec == TraceInit /\ [][TraceNext]_tvars
Consumed == (l = Len(Trace) + 1) => PrintT("CONSUMED|" \o ToString(Len(Trace)))
=============================================================================
