----------------------------- MODULE RobustHist -----------------------------
(***************************************************************************)
(* Robustness against messages that are well-formed one by one but arrive   *)
(* OUT OF PROTOCOL ORDER (C08, history part): a response nobody asked for,  *)
(* an in-dialog request for a dialog the proxy has only heard of through    *)
(* such a response, the same dialog seen from a client and from a backend   *)
(* address, in both orientations of From / To.                              *)
(* The only state such messages touch is the dialog pin table                *)
(* (proxy.go handleDialog / getBackendOfResponse / findBackendByDialog):     *)
(*   pin = "none"     no entry                                               *)
(*   pin = "backend"  bound to a backend object                              *)
(*   pin = "nil"      an entry WITHOUT a backend object - what an unguarded  *)
(*                    "backend of this response" lookup would store for a    *)
(*                    stray response; the next in-dialog request then calls  *)
(*                    a method on nothing                                    *)
(* Guarded = TRUE is the design of the tree (an unknown source / transaction *)
(* is an error value and nothing is stored); with FALSE TLC finds the crash. *)
(***************************************************************************)
EXTENDS Integers, Sequences, FiniteSets, TLC
CONSTANTS Guarded, MaxLen

Kinds == {"resp2xx.invite", "resp1xx.invite", "resp2xx.subscribe", "resp2xx.bye", "resp4xx.invite", "resp2xx.notag",
          "bye", "reinvite", "notify", "ack", "cancel", "info", "newinvite", "subscribe"}
Peers == {"client", "backend"}          \* where the datagram comes from: some address, or the address of a configured backend
Dirs == {"fwd", "rev"}                  \* orientation of From / To of the one dialog all messages belong to
Syms == [k : Kinds, p : Peers, d : Dirs]
IsResp(k) == k \in {"resp2xx.invite", "resp1xx.invite", "resp2xx.subscribe", "resp2xx.bye", "resp4xx.invite", "resp2xx.notag"}
Binds(k) == k \in {"resp2xx.invite", "resp1xx.invite", "resp2xx.subscribe"}      \* tagged 1xx / 2xx of a dialog-creating method
InDialog(k) == k \in {"bye", "reinvite", "notify", "ack", "info"}

VARIABLES h, pin, asked, state
vars == <<h, pin, asked, state>>
Init == h = <<>> /\ pin = "none" /\ asked = FALSE /\ state = "run"

Step(s) ==
    /\ state = "run" /\ Len(h) < MaxLen
    /\ h' = Append(h, s)
    /\ asked' = (asked \/ s.k \in {"newinvite", "subscribe"})          \* a request of the dialog went to a backend: its transaction is known
    /\ IF IsResp(s.k)
       THEN /\ pin' = IF Binds(s.k)
                      THEN (IF s.p = "backend" \/ asked THEN "backend" ELSE IF Guarded THEN pin ELSE "nil")
                      ELSE IF s.k = "resp2xx.bye" THEN "none" ELSE pin
            /\ state' = state
       ELSE IF InDialog(s.k)
       THEN /\ pin' = pin
            /\ state' = IF pin = "nil" THEN "crash" ELSE state          \* findBackendByDialog: backend.GetAddress() on nothing
       ELSE pin' = pin /\ state' = state
Next == \E s \in Syms : Step(s)
Spec == Init /\ [][Next]_vars
NeverCrash == state # "crash"
=============================================================================
