----------------------------- MODULE MC_UdpBuf -----------------------------
EXTENDS UdpBuf, Json, CSV, IOUtils
\* BufSize = 4 cells.  Datagram classes: small / large, declared body exact / larger than carried / smaller, zero body,
\* cut inside the headers, over-declared by more than a buffer
Classes == { [size |-> 2, hdr |-> 1, decl |-> 1], [size |-> 4, hdr |-> 1, decl |-> 3], [size |-> 2, hdr |-> 1, decl |-> 3],
             [size |-> 3, hdr |-> 1, decl |-> 1], [size |-> 1, hdr |-> 2, decl |-> 0], [size |-> 3, hdr |-> 1, decl |-> 4] }
WithIds(s) == [i \in DOMAIN s |-> [id |-> i, size |-> s[i].size, hdr |-> s[i].hdr, decl |-> s[i].decl]]
MCSeqs3 == {WithIds(<<a, b, c>>) : a \in Classes, b \in Classes, c \in Classes}
MCSeqs4 == {WithIds(<<a, b, c, d>>) : a \in Classes, b \in Classes, c \in Classes, d \in Classes}
Emit == (next = 1 /\ nbuf = 0) => CSVWrite("%1$s", <<ToJson(Dgrams)>>, IOEnv.OUT)
Reach_StaleVisible == ~(\E i \in DOMAIN cells : \E j, k \in 1..BufSize : cells[i][j] # 0 /\ cells[i][k] # 0 /\ cells[i][j] # cells[i][k])
Reach_Recycled == ~(rpc = "read" /\ \E j \in 1..BufSize : cells[rbuf][j] # 0)
=============================================================================
