----------------------------- MODULE ReturnPath -----------------------------
(***************************************************************************)
(* The closed loop behind C02 (history part) and C07 (consequence):         *)
(* concurrent transactions from user agents through the proxy to backends   *)
(* and back.  The proxy stamps received / rport on the sender's Via entry   *)
(* (when received-support is on), pushes its own Via, dispatches; a backend *)
(* answers - provisional and final responses, in any interleaving across    *)
(* transactions - echoing the Via stack it saw; the proxy pops its own      *)
(* entry and sends the response where the entry now on top says.            *)
(* ReturnPath: the response to a relayed request returns to the hop the     *)
(* request came from - its true source address when stamping is on, and its *)
(* true source port when rport was requested - carrying exactly the Via     *)
(* stack that hop sent (modulo what C07 lets the proxy write on it).        *)
(***************************************************************************)
EXTENDS Integers, Sequences, FiniteSets, TLC

CONSTANTS Txs,          \* transactions
          Recv          \* received-support of the listener

\* a transaction's request as its user agent sends it: the UA sits at src, announces sentby, may ask for rport,
\* may carry a spoofed received; deeper Via entries (an upstream proxy) stay beneath
Shapes == [ src : {[ip |-> "ua1", port |-> 24001], [ip |-> "ua2", port |-> 24002]},
            sentby : {[host |-> "ua1", port |-> 5062], [host |-> "name.example", port |-> 0],
                      [host |-> "self", port |-> 5062]},     \* "self": the UA's own address as a literal - only the PORT differs from the true source
            rport : {"none", "empty", "spoofed"}, spoofrecv : BOOLEAN, deep : BOOLEAN ]

VARIABLES shape,      \* shape[t] \in Shapes
          st,         \* st[t] \in {"new", "sent", "answered"}
          atBackend,  \* Via stack the backend saw for t
          deliv       \* deliveries of responses: [t, to, stack]

vars == <<shape, st, atBackend, deliv>>

SentHost(sh) == IF sh.sentby.host = "self" THEN sh.src.ip ELSE sh.sentby.host
Top(sh) == [host |-> SentHost(sh), port |-> sh.sentby.port,
            received |-> IF sh.spoofrecv THEN "6.6.6.6" ELSE "",
            rport |-> CASE sh.rport = "none" -> [k |-> "absent", v |-> 0] [] sh.rport = "empty" -> [k |-> "empty", v |-> 0] [] OTHER -> [k |-> "num", v |-> 9]]
NoRport == [k |-> "absent", v |-> 0]
Deep == [host |-> "up.example", port |-> 5064, received |-> "", rport |-> NoRport]
Sent(sh) == IF sh.deep THEN <<Top(sh), Deep>> ELSE <<Top(sh)>>
Own == [host |-> "proxy", port |-> 5060, received |-> "", rport |-> NoRport]

\* SetReceived (C07)
Stamp(e, src) == IF ~Recv THEN e
                 ELSE [e EXCEPT !.received = src.ip, !.rport = IF e.rport.k = "absent" THEN NoRport ELSE [k |-> "num", v |-> src.port]]
\* getNextReponseHop (C02)
Hop(e) == IF e.received # ""
          THEN [ip |-> e.received, port |-> IF e.rport.k = "num" THEN e.rport.v ELSE IF e.port = 0 THEN 5060 ELSE e.port]
          ELSE [ip |-> e.host, port |-> IF e.port = 0 THEN 5060 ELSE e.port]

Init == /\ shape \in [Txs -> Shapes] /\ st = [t \in Txs |-> "new"]
        /\ atBackend = [t \in Txs |-> <<>>] /\ deliv = {}

\* the proxy relays the request to a backend
Request(t) == /\ st[t] = "new"
              /\ LET s == Sent(shape[t]) IN
                 atBackend' = [atBackend EXCEPT ![t] = <<Own, Stamp(s[1], shape[t].src)>> \o Tail(s)]
              /\ st' = [st EXCEPT ![t] = "sent"] /\ UNCHANGED <<shape, deliv>>
\* the backend answers (echoing the stack), the proxy pops its entry and forwards
Respond(t, final) == /\ st[t] = "sent"
                     /\ LET rest == Tail(atBackend[t]) IN
                        deliv' = deliv \cup {[t |-> t, to |-> Hop(rest[1]), stack |-> rest]}
                     /\ st' = [st EXCEPT ![t] = IF final THEN "answered" ELSE "sent"]
                     /\ UNCHANGED <<shape, atBackend>>
Next == \E t \in Txs : Request(t) \/ Respond(t, TRUE) \/ Respond(t, FALSE)
Spec == Init /\ [][Next]_vars

\* where the response must arrive, from the property text
Expected(sh) == IF Recv THEN [ip |-> sh.src.ip, port |-> IF sh.rport = "none" THEN (IF sh.sentby.port = 0 THEN 5060 ELSE sh.sentby.port) ELSE sh.src.port]
                ELSE IF sh.spoofrecv THEN [ip |-> "6.6.6.6", port |-> IF sh.rport = "spoofed" THEN 9 ELSE IF sh.sentby.port = 0 THEN 5060 ELSE sh.sentby.port]
                ELSE [ip |-> SentHost(sh), port |-> IF sh.sentby.port = 0 THEN 5060 ELSE sh.sentby.port]
\* ... carrying the stack that hop sent; the proxy may only have written received / rport on the sender's entry
SameButStamp(a, b) == a.host = b.host /\ a.port = b.port
ReturnPath == \A d \in deliv :
                 /\ d.to = Expected(shape[d.t])
                 /\ Len(d.stack) = Len(Sent(shape[d.t]))
                 /\ SameButStamp(d.stack[1], Sent(shape[d.t])[1])
                 /\ Tail(d.stack) = Tail(Sent(shape[d.t]))
=============================================================================
