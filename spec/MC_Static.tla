----------------------------- MODULE MC_Static -----------------------------
(* All route tables of up to MaxEntries entries over a small universe of    *)
(* patterns x all hosts of the universe: the operational three-phase lookup *)
(* is admissible by the declarative precedence, and the (table, host)       *)
(* pairs are emitted for replay on the real PreConfigRoute.                 *)
EXTENDS StaticOps, TLC, Json, CSV, IOUtils
CONSTANTS MaxEntries

S(str) == str   \* readability only

Pats == { <<"a",".","x">>, <<"b",".","x">>, <<"*",".","x">>, <<"a",".","*">>, <<"*">>, DEFAULT, <<"a","X","x">> }
Hosts == { <<"a",".","x">>, <<"b",".","x">>, <<"c",".","x">>, <<"a",".","y">>, <<"a","X","x">>, <<"x">>, DEFAULT, <<"a",".","b",".","x">>,
           <<"a",".","x","y">>, <<"z","a",".","x">> }     \* hosts that extend / are extended by a literal pattern (anchoring at both ends)

Protos == <<"udp", "tcp", "tls", "tls">>
\* entry attributes are derived from the position so that every entry's answer is distinguishable; the ports cover
\* explicit / omitted for every protocol, and an explicitly written default port (tls next hop on 5060)
Ports == <<6001, 0, 5060, 0>>
Entry(p, i) == [pat |-> p, proto |-> Protos[i], nhost |-> <<"n", ToString(i)>>, nport |-> Ports[i]]

VARIABLES tab, host, done
vars == <<tab, host, done>>

Init == /\ tab = <<>> /\ host \in Hosts /\ done = FALSE
\* grow the table one distinct pattern at a time; every prefix is a table in its own right
Grow == /\ ~done /\ Len(tab) < MaxEntries
        /\ \E p \in Pats : (\A i \in DOMAIN tab : tab[i].pat # p) /\ tab' = Append(tab, Entry(p, Len(tab) + 1))
        /\ UNCHANGED <<host, done>>
Stop == ~done /\ done' = TRUE /\ UNCHANGED <<tab, host>>
Next == Grow \/ Stop
Spec == Init /\ [][Next]_vars

LookupAdmissible == Lookup(tab, host) \in Admissible(tab, host)
RegexIsGlob == \A i \in DOMAIN tab : RxMatch(ToRegex(tab[i].pat), host) <=> Glob(tab[i].pat, host)
\* anti-vacuity: overlapping wildcards, default-only and no-route cases are all reached
Reach_Overlap == ~(Cardinality(Admissible(tab, host)) > 1)
Reach_DefaultOnly == ~(\E e \in Entries(tab) : e.pat = DEFAULT /\ Admissible(tab, host) = {Answer(e)} /\ host # DEFAULT)
Reach_None == ~(tab # <<>> /\ Admissible(tab, host) = {NoRoute})

Emit == done => CSVWrite("%1$s", <<ToJson([tab |-> tab, host |-> host])>>, IOEnv.OUT)
=============================================================================
