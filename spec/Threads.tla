------------------------------- MODULE Threads -------------------------------
(***************************************************************************)
(* Lock discipline of the proxy's goroutines (C09).  Threads are the ones   *)
(* of DESIGN.md section 1: one message loop per listener of a service, the  *)
(* receive goroutines, the membership / resolver thread.  Every access to a *)
(* shared object is a bracket  Acquire(lock)? ; Begin ; End ; Release?  -   *)
(* the accesses and the lock the code holds there are exactly the hook      *)
(* sites / critical sections of the implementation:                         *)
(*   learned  SelfLearnRoute.route      loops (AddRoute w, GetRoute r)      *)
(*            lock "sl" (SLLocked = FALSE: the pinned tree, no lock: D13)   *)
(*   pool     RoundRobinBackend         loops (index w), member (list w)    *)
(*            lock "rb"                                                     *)
(*   ctab     ClientTransportMgr        its own loop only, lock "ct"        *)
(*   bufpool  ByteArrayPool             recv (Alloc w), parse (Free w)      *)
(*            lock "bp"                                                     *)
(*   resolv   DynamicHostResolver       member (w), lock "rs"               *)
(*   known    Proxy.backends            its own loop only (events arrive by *)
(*            channel) - CONFINED, no lock                                  *)
(*   pins     DialogBasedBackend        its own loop only - CONFINED        *)
(* NoRace: never two threads inside conflicting accesses of one object.     *)
(* Progress: no state in which some thread waits and nothing can move.      *)
(***************************************************************************)
EXTENDS Integers, Sequences, FiniteSets, TLC
CONSTANT SLLocked

Op(o, m, l) == [obj |-> o, mode |-> m, lock |-> l]
SL == IF SLLocked THEN "sl" ELSE "none"
Loop(i) == << Op("learned", "w", SL), Op("learned", "w", SL), Op("learned", "r", SL), Op("pins" \o i, "r", "none"),
              Op("pool", "w", "rb"), Op("pool", "r", "rb"), Op("pool", "r", "rb"), Op("ctab" \o i, "w", "ct" \o i), Op("known" \o i, "r", "none"), Op("pins" \o i, "w", "none") >>
Program == [ loop1 |-> Loop("1"), loop2 |-> Loop("2"),
             recv1 |-> << Op("bufpool1", "w", "bp1"), Op("bufpool1", "w", "bp1") >>,
             parse1 |-> << Op("bufpool1", "w", "bp1") >>,
             member |-> << Op("resolv", "w", "rs"), Op("pool", "w", "rb"), Op("pool", "w", "rb") >> ]
Thr == DOMAIN Program

VARIABLES pc, st, held      \* st[t] \in {"out", "locked", "in"}
vars == <<pc, st, held>>
Cur(t) == Program[t][pc[t]]
Init == pc = [t \in Thr |-> 1] /\ st = [t \in Thr |-> "out"] /\ held = [l \in {} |-> ""]
Running(t) == pc[t] <= Len(Program[t])

Acquire(t) == /\ Running(t) /\ st[t] = "out" /\ Cur(t).lock # "none"
              /\ Cur(t).lock \notin DOMAIN held
              /\ held' = [l \in DOMAIN held \cup {Cur(t).lock} |-> IF l = Cur(t).lock THEN t ELSE held[l]]
              /\ st' = [st EXCEPT ![t] = "locked"] /\ UNCHANGED pc
Begin(t) == /\ Running(t)
            /\ (st[t] = "locked" \/ (st[t] = "out" /\ Cur(t).lock = "none"))
            /\ st' = [st EXCEPT ![t] = "in"] /\ UNCHANGED <<pc, held>>
End(t) == /\ Running(t) /\ st[t] = "in"
          /\ held' = [l \in DOMAIN held \ {Cur(t).lock} |-> held[l]]
          /\ st' = [st EXCEPT ![t] = "out"] /\ pc' = [pc EXCEPT ![t] = @ + 1]
Next == \E t \in Thr : Acquire(t) \/ Begin(t) \/ End(t)
Spec == Init /\ [][Next]_vars

Inside(t) == Running(t) /\ st[t] = "in"
NoRace == \A t, u \in Thr : (t # u /\ Inside(t) /\ Inside(u) /\ Cur(t).obj = Cur(u).obj) => (Cur(t).mode = "r" /\ Cur(u).mode = "r")
\* objects documented as owned by one thread are touched by that thread only
Confined == \A t, u \in Thr : \A i \in DOMAIN Program[t], j \in DOMAIN Program[u] :
               (Program[t][i].lock = "none" /\ Program[t][i].obj = Program[u][j].obj /\ Program[t][i].obj # "learned") => t = u
Progress == (\E t \in Thr : Running(t)) => ENABLED Next
=============================================================================
