SPECIFICATION Spec
CONSTANT Guarded = TRUE
INVARIANTS NeverCrash
CONSTRAINT Emit
