-------------------------- MODULE Trace_ReturnPath --------------------------
(* Trace validation of the closed loop (C02 history part / C07 consequence):  *)
(* real requests through the real loop to Backend doubles, the backend's      *)
(* responses (echoing the Via stack the double received) injected from the    *)
(* backend's address in the generated interleaving; where each response       *)
(* arrives is observed at loopback sockets on the user agent's true source    *)
(* address and on every announced sent-by address.                            *)
EXTENDS ProxyOps, Json, IOUtils
Trace == ndJsonDeserialize(IOEnv.TRACE_FILE)
VARIABLES l, cfg, reqs
tvars == <<l, cfg, reqs>>
Put(f, k, v) == [x \in DOMAIN f \cup {k} |-> IF x = k THEN v ELSE f[x]]
Res(h) == IF h \in DOMAIN cfg.resolv THEN cfg.resolv[h] ELSE ""
\* where the response must arrive (property text of C02 / C07)
Expected(r) ==
    LET top == r.sent[1] IN
    IF cfg.recv THEN [ip |-> r.src.ip, port |-> IF HasParam(top.params, "rport") THEN r.src.port ELSE ViaPort(top)]
    ELSE LET h == RespHop(top) IN [ip |-> Res(h.host), port |-> h.port]
StripRecv(e) == [e EXCEPT !.params = SelectSeq(@, LAMBDA p : p[1] \notin {"received", "rport"}), !.rport = 0]
StripTop(s) == IF s = <<>> THEN s ELSE <<StripRecv(s[1])>> \o Tail(s)
Verdict(e) ==
    IF e.panic # "" THEN "P:C02:panic"
    ELSE IF e.ev = "req" THEN ""
    ELSE IF e.t \notin DOMAIN reqs THEN ""
    ELSE LET r == reqs[e.t] IN
         IF Len(e.outs) = 0 THEN "P:C02:response-to-a-relayed-request-did-not-return"
         ELSE IF Len(e.outs) > 1 THEN "P:C02:response-sent-more-than-once"
         ELSE IF e.outs[1].ip # Expected(r).ip \/ e.outs[1].port # Expected(r).port THEN "P:C02:response-did-not-return-to-the-hop-the-request-came-from"
         ELSE IF ~ViaSeqEq(StripTop(e.outs[1].stack), StripTop(r.sent)) THEN "P:C02:response-does-not-carry-the-Via-stack-that-hop-sent"
         ELSE ""
TraceInit == l = 1 /\ cfg = [none |-> TRUE] /\ reqs = <<>>
TraceNext ==
  /\ l <= Len(Trace) /\ l' = l + 1
  /\ LET e == Trace[l] IN
     IF e.ev = "reset" THEN cfg' = e.cfg /\ reqs' = <<>>
     ELSE /\ cfg' = cfg
          /\ reqs' = IF e.ev = "req" /\ e.dispatched THEN Put(reqs, e.t, [src |-> e.src, sent |-> e.sent]) ELSE reqs
          /\ LET v == Verdict(e) IN
             IF v # "" THEN PrintT("FAIL|" \o ToString(l) \o "|" \o e.case \o "|" \o v \o "|" \o e.cls) ELSE TRUE
TraceSpec == TraceInit /\ [][TraceNext]_tvars
Consumed == (l = Len(Trace) + 1) => PrintT("CONSUMED|" \o ToString(Len(Trace)))
=============================================================================
