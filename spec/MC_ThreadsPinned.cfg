SPECIFICATION Spec
CONSTANT SLLocked = FALSE
INVARIANTS NoRace
