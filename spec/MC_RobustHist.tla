--------------------------- MODULE MC_RobustHist ---------------------------
EXTENDS RobustHist, Json, CSV, IOUtils
Emit == Len(h) >= 2 => CSVWrite("%1$s", <<ToJson(h)>>, IOEnv.OUT)
=============================================================================
