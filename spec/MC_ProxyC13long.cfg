SPECIFICATION Spec
CONSTANTS
  RouteFirst = {"own.addr", "hop1", "miss.port"}
  RouteRest = {"hop1", "hop2.tcp"}
  MaxRoute = 6
  ViaLens = {1}
  RRLens = {0}
  ToClasses = {"none"}
  RuriClasses = {"foreign"}
  Keeps = {TRUE, FALSE}
  LPorts = {5060}
  Pools = {"two"}
  Learns = {"none"}
  MustRRs = {FALSE}
  Recvs = {TRUE}
  HdrOrders = {"std"}
  RportForms = {"none"}
  Kinds = {"req"}
  RespVias = {"own"}
  Statuses = {200}
INVARIANTS ReqOK RespOK
CONSTRAINT Emit
