-------------------------------- MODULE Pins --------------------------------
(* State machine of the pin table and the declarative part of C15.          *)
EXTENDS PinsOps

CONSTANTS Keys, Backs, T, ExpVals, MaxNow, RearmFixed

VARIABLES now,      \* the clock
          tab,      \* [pins : Key -|-> [b, exp], nc : next sweep time]   (the code's state)
          est,      \* history: est[k] = [b, t, life] of the Add that established k, while not terminated
          justAdded \* history: TRUE in the state reached by an Add

vars == <<now, tab, est, justAdded>>

Init == /\ now = 0
        /\ tab = [pins |-> [k \in {} |-> [b |-> "", exp |-> 0]], nc |-> T]   \* NewDialogBasedBackend: first sweep one timeout from creation
        /\ est = [k \in {} |-> [b |-> "", t |-> 0, life |-> 0]]
        /\ justAdded = FALSE

\* every operation happens at an instant t >= now (the clock only moves forward)
At(t) == t >= now /\ t <= MaxNow /\ now' = t

Add(k, b, e, t) == /\ At(t)
                   /\ tab' = AddAt(tab, k, b, e, t, T, RearmFixed)
                   /\ est' = Put(est, k, [b |-> b, t |-> t, life |-> Life(T, e)])
                   /\ justAdded' = TRUE

Get(k, t) == /\ At(t)
             /\ tab' = GetAt(tab, k, t)
             /\ justAdded' = FALSE
             /\ UNCHANGED est

Remove(k, t) == /\ At(t)
                /\ tab' = RemoveAt(tab, k)
                /\ est' = Drop(est, k)
                /\ justAdded' = FALSE

Tick == /\ At(now + 1)
        /\ justAdded' = FALSE
        /\ UNCHANGED <<tab, est>>

Next == \/ \E k \in Keys, b \in Backs, e \in ExpVals : Add(k, b, e, now)
        \/ \E k \in Keys : Get(k, now) \/ Remove(k, now)
        \/ Tick

Spec == Init /\ [][Next]_vars

---------------------------------------------------------------------------
(* C15, written from the property text.                                     *)

\* honoured for at least max(timeout, Expires) after it was established ...
Honoured == \A k \in DOMAIN est :
               (now < est[k].t + est[k].life) => (Hit(tab, k, now) /\ tab.pins[k].b = est[k].b)
\* ... and never after that lifetime has elapsed
Forgotten == \A k \in Keys :
               (k \in DOMAIN est /\ now >= est[k].t + est[k].life) => ~Hit(tab, k, now)
\* dissolved early on termination
Terminated == \A k \in Keys : (k \notin DOMAIN est) => ~Hit(tab, k, now)
\* none survives more than one further timeout period of ongoing traffic (traffic = Adds), whatever Expires was carried
Purged == justAdded => \A k \in DOMAIN tab.pins : tab.pins[k].exp + T >= now
\* therefore the table is bounded by what can be alive plus what expired within the last period
=============================================================================
