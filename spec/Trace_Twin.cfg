SPECIFICATION TraceSpec
INVARIANT Consumed
