SPECIFICATION SeqSpec
CONSTANTS
  Addrs = {"a1","a2","a3","a4"}
  Threads = {"t1"}
  MaxOps = 9
  MaxDisp = 0
  MaxChg = 0
VIEW SeqView
INVARIANTS TypeOK Window Balance Member
PROPERTIES SeqEmptyDrop
