---------------------------- MODULE MC_Affinity ----------------------------
EXTENDS Affinity, Json, CSV, IOUtils
CONSTANT EqualSentBy
MCConns == {"c1", "c2", "c3"}
MCSentBy == IF EqualSentBy THEN [c \in MCConns |-> "s1"] ELSE ("c1" :> "s1") @@ ("c2" :> "s2") @@ ("c3" :> "s1")
MCTxs == {"t1", "t2", "t3", "t4", "t5"}
MCTxConn == ("t1" :> "c1") @@ ("t2" :> "c1") @@ ("t3" :> "c2") @@ ("t4" :> "c2") @@ ("t5" :> "c3")
VARIABLES hist
mcvars == <<vars, hist>>
MCInit == Init /\ hist = <<>>
MCNext == \E t \in Txs :
            \/ Request(t) /\ hist' = Append(hist, [op |-> "req", t |-> t])
            \/ Respond(t, TRUE) /\ hist' = Append(hist, [op |-> "final", t |-> t])
            \/ Respond(t, FALSE) /\ hist' = Append(hist, [op |-> "prov", t |-> t])
MCSpec == MCInit /\ [][MCNext]_mcvars
PropView == <<tab, prim, nobj, state, arrived, deliv>>
Done == \A t \in Txs : state[t] = "done"
EmitInv == Done => CSVWrite("%1$s", <<ToJson([hist |-> hist, sentby |-> SentBy, txconn |-> TxConn])>>, IOEnv.OUT)
Reach_Overlap == ~(\E t, u \in Txs : t # u /\ TxConn[t] # TxConn[u] /\ SentBy[TxConn[t]] = SentBy[TxConn[u]] /\ state[t] = "sent" /\ state[u] = "sent")
=============================================================================
