SPECIFICATION TraceSpec
CONSTANT Focus = "C03"
INVARIANT Consumed
