----------------------------- MODULE MC_Sticky -----------------------------
EXTENDS Sticky, TLC, Json, CSV, IOUtils
CONSTANTS MaxOps, MaxTimeouts
MCBackSeq == <<"b1", "b2", "b3">>
VARIABLES n, hist
mcvars == <<vars, n, hist>>
ntimeouts == Len(SelectSeq(hist, LAMBDA h : h.op = "timeout"))
MCInit == Init /\ n = 0 /\ hist = <<>>
Ev(op, d, m, b) == [op |-> op, d |-> d, m |-> m, b |-> b]
MCNext == /\ n < MaxOps /\ n' = n + 1
          /\ \/ \E d \in Dialogs : Initial(d) /\ hist' = Append(hist, Ev("initial", d, "", ""))
             \/ \E d \in Dialogs, lg \in BOOLEAN : Answer(d, lg) /\ hist' = Append(hist, Ev("answer", d, IF lg THEN "long" ELSE "", ""))
             \/ \E d \in Dialogs, f \in BOOLEAN : AnswerElsewhere(d, f) /\ hist' = Append(hist, Ev("answer", d, IF f THEN "elsewhere-final" ELSE "elsewhere-prov", ""))
             \/ \E d \in Dialogs : Rejected(d) /\ hist' = Append(hist, Ev("answer", d, "reject", ""))
             \/ \E d \in Dialogs : ByeAnswered(d) /\ hist' = Append(hist, Ev("bye", d, "", ""))
             \/ \E d \in Dialogs : NotifyTerminated(d) /\ hist' = Append(hist, Ev("notify-term", d, "", ""))
             \/ \E d \in Dialogs, m \in Methods : InDialog(d, m) /\ hist' = Append(hist, Ev("indialog", d, m, ""))
             \/ \E d \in Dialogs, b \in Backs, lg \in BOOLEAN : SubscribeAnswered(d, b, lg) /\ hist' = Append(hist, Ev("bsub", d, IF lg THEN "long" ELSE "", b))
             \/ Unrelated /\ hist' = Append(hist, Ev("unrelated", "", "", ""))
             \/ UptimePasses /\ ~due /\ hist' = Append(hist, Ev("uptime", "", "", ""))
             \/ TimeoutPasses /\ ntimeouts < MaxTimeouts /\ hist' = Append(hist, Ev("timeout", "", "", ""))
MCSpec == MCInit /\ [][MCNext]_mcvars
PropView == <<vars, n, ntimeouts>>
EmitInv == (n = MaxOps) => CSVWrite("%1$s", <<ToJson(hist)>>, IOEnv.OUT)
Reach_TxAttributed == ~(\E d \in DOMAIN pins : d \notin DOMAIN tx /\ \E i \in DOMAIN hist : hist[i].d = d /\ hist[i].m = "elsewhere-final")
\* an answer from another address releases a dialog that an answer from the configured address had pinned
Reach_StrayUnpins == ~(\E d \in Dialogs : d \notin DOMAIN pins /\ Len(hist) > 2 /\ hist[Len(hist)].d = d /\ hist[Len(hist)].m \in {"elsewhere-final", "elsewhere-prov"}
                         /\ \E i \in 1..(Len(hist) - 1) : hist[i].d = d /\ hist[i].op = "answer" /\ hist[i].m \in {"", "long"})
Reach_LongSurvives == ~(last.origin = "pin" /\ ntimeouts > 0 /\ last.dlg \in long)
Reach_PinnedAfterRotation == ~(last.origin = "pin" /\ idx # 0)
=============================================================================
