----------------------------- MODULE MC_Sticky -----------------------------
EXTENDS Sticky, TLC, Json, CSV, IOUtils
CONSTANTS MaxOps
MCBackSeq == <<"b1", "b2", "b3">>
VARIABLES n, hist
mcvars == <<vars, n, hist>>
MCInit == Init /\ n = 0 /\ hist = <<>>
Ev(op, d, m, b) == [op |-> op, d |-> d, m |-> m, b |-> b]
MCNext == /\ n < MaxOps /\ n' = n + 1
          /\ \/ \E d \in Dialogs : Initial(d) /\ hist' = Append(hist, Ev("initial", d, "", ""))
             \/ \E d \in Dialogs : Answer(d) /\ hist' = Append(hist, Ev("answer", d, "", ""))
             \/ \E d \in Dialogs : ByeAnswered(d) /\ hist' = Append(hist, Ev("bye", d, "", ""))
             \/ \E d \in Dialogs : NotifyTerminated(d) /\ hist' = Append(hist, Ev("notify-term", d, "", ""))
             \/ \E d \in Dialogs, m \in Methods : InDialog(d, m) /\ hist' = Append(hist, Ev("indialog", d, m, ""))
             \/ \E d \in Dialogs, b \in Backs : SubscribeAnswered(d, b) /\ hist' = Append(hist, Ev("bsub", d, "", b))
             \/ Unrelated /\ hist' = Append(hist, Ev("unrelated", "", "", ""))
             \/ UptimePasses /\ ~due /\ hist' = Append(hist, Ev("uptime", "", "", ""))
MCSpec == MCInit /\ [][MCNext]_mcvars
PropView == <<vars, n>>
EmitInv == (n = MaxOps) => CSVWrite("%1$s", <<ToJson(hist)>>, IOEnv.OUT)
Reach_PinnedAfterRotation == ~(last.origin = "pin" /\ idx # 0)
=============================================================================
