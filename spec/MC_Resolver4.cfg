SPECIFICATION Spec
CONSTANTS
  Addrs = {"1", "2", "3"}
  MaxLen = 4
INVARIANTS Tracks
CONSTRAINT Emit
