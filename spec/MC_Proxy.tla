------------------------------ MODULE MC_Proxy ------------------------------
(***************************************************************************)
(* Bounded universe of single loop iterations.  A RECIPE is a small         *)
(* symbolic description of a message and its environment; Build turns it    *)
(* into the abstract message / environment the operators work on.  TLC      *)
(*   - checks that the operational pipeline (ProxyOper) satisfies the       *)
(*     declarative relations (ProxyJudge) for every recipe  (leg M), and    *)
(*   - emits every recipe as a JSON line; the Go concretiser renders each   *)
(*     with many concrete spellings and runs it on the real proxy (leg R).  *)
(* The dimensions are CONSTANT sets so that each property's cfg spans its   *)
(* own quantifier and pins the rest.                                        *)
(***************************************************************************)
EXTENDS ProxyOper, ProxyJudge, TLC, Json, CSV, IOUtils

CONSTANTS RouteFirst,   \* symbols allowed as first Route entry (incl. "-" for none)
          RouteRest,    \* symbols allowed after it
          MaxRoute,     \* max number of Route entries
          ViaLens,      \* numbers of Via entries already present
          RRLens,       \* numbers of Record-Route entries already present
          ToClasses, RuriClasses, Keeps, LPorts, Pools, Learns, MustRRs, Recvs, HdrOrders, RportForms, Kinds, RespVias, Statuses

LADDR == "10.0.0.1"
ALIAS == "proxy.example.com"
EmptyUri == [scheme |-> "", user |-> "", pass |-> "", host |-> "", port |-> 0, params |-> <<>>, hdrs |-> <<>>, opaque |-> "", raw |-> ""]
SipU(user, host, port, params) == [scheme |-> "sip", user |-> user, pass |-> "", host |-> host, port |-> port, params |-> params,
                                   hdrs |-> <<>>, opaque |-> "", raw |-> "sip:" \o user \o "@" \o host \o ":" \o ToString(port)]
AbsU(scheme, opaque) == [EmptyUri EXCEPT !.scheme = scheme, !.opaque = opaque, !.raw = scheme \o ":" \o opaque]
RtE(uri) == [proto |-> "", host |-> "", port |-> 0, rport |-> 0, params |-> <<>>, disp |-> "", uri |-> uri, hparams |-> <<>>, bad |-> FALSE]
AddrE(uri, tag) == [RtE(uri) EXCEPT !.hparams = IF tag = "" THEN <<>> ELSE << <<"tag", tag>> >>]
ViaE(proto, host, port, params, rport) == [proto |-> proto, host |-> host, port |-> port, rport |-> rport, params |-> params,
                                           disp |-> "", uri |-> EmptyUri, hparams |-> <<>>, bad |-> FALSE]
Line(cls, nm, ents) == [cls |-> cls, nm |-> nm, cn |-> nm, val |-> "", ents |-> ents]
Oth(cls, nm, val) == [cls |-> cls, nm |-> nm, cn |-> nm, val |-> val, ents |-> <<>>]
LR == << <<"lr", NoVal>> >>

\* Route entry symbols
RouteEntry(sym, lport) ==
    CASE sym = "own.addr"      -> RtE(SipU("", LADDR, lport, LR))
      [] sym = "own.alias"     -> RtE(SipU("", ALIAS, lport, LR))
      [] sym = "own.noport"    -> RtE(SipU("", ALIAS, 0, LR))                    \* designates the listener iff it is on 5060
      [] sym = "miss.port"     -> RtE(SipU("", LADDR, lport + 1, LR))            \* right host, wrong port
      [] sym = "miss.host"     -> RtE(SipU("", "10.0.9.9", lport, LR))           \* right port, foreign host
      [] sym = "other.listener"-> RtE(SipU("", "10.0.0.2", lport, LR))           \* listener of another service entry
      [] sym = "hop1"          -> RtE(SipU("", "10.0.1.1", 5070, LR))
      [] sym = "hop2.tcp"      -> RtE(SipU("", "10.0.1.2", 0, << <<"transport", "tcp">>, <<"lr", NoVal>> >>))
      [] sym = "hop3.tls"      -> RtE(SipU("", "10.0.1.3", 0, << <<"transport", "tls">> >>))
      [] sym = "hop4.name"     -> RtE(SipU("u", "n1.example.com", 5080, LR))

\* all ways of cutting a list of n entries into consecutive header lines: the compositions of n
RECURSIVE Comps(_)
Comps(n) == IF n = 0 THEN {<<>>} ELSE UNION {{<<k>> \o r : r \in Comps(n - k)} : k \in 1..n}
RECURSIVE Group(_, _)
Group(ents, sizes) == IF sizes = <<>> THEN <<>>
                      ELSE <<SubSeq(ents, 1, Head(sizes))>> \o Group(SubSeq(ents, Head(sizes) + 1, Len(ents)), Tail(sizes))
ToLines(cls, nm, groups) == [i \in DOMAIN groups |-> Line(cls, nm, groups[i])]

RECURSIVE RestSyms(_)
RestSyms(n) == IF n = 0 THEN {<<>>} ELSE {<<>>} \cup {<<s>> \o r : s \in RouteRest, r \in RestSyms(n - 1)}
RouteSymStacks == {<<>>} \cup {<<f>> \o r : f \in RouteFirst \ {"-"}, r \in RestSyms(MaxRoute - 1)}

ViaOf(i, rportForm) ==
    LET base == << <<"branch", "z9hG4bKin" \o ToString(i)>> >> IN
    IF i = 1
    THEN CASE rportForm = "none"   -> ViaE("UDP", "10.0.2.1", 5062, base, 0)
           [] rportForm = "empty"  -> ViaE("UDP", "10.0.2.1", 5062, base \o << <<"rport", NoVal>> >>, 0)
           [] rportForm = "spoof"  -> ViaE("UDP", "10.0.2.1", 5062, << <<"rport", "9">>, <<"branch", "z9hG4bKin1">>, <<"received", "1.2.3.4">> >>, 9)
           [] rportForm = "spoof2" -> ViaE("UDP", "10.0.2.1", 5062, << <<"received", "1.2.3.4">>, <<"branch", "z9hG4bKin1">>, <<"rport", "9">> >>, 9)
           [] rportForm = "spoof3" -> ViaE("UDP", "10.0.2.1", 5062, << <<"received", "1.2.3.4">>, <<"rport", NoVal>>, <<"branch", "z9hG4bKin1">> >>, 0)
           [] rportForm = "noport" -> ViaE("TCP", "client.example.com", 0, base, 0)
    ELSE ViaE("UDP", "10.0.2." \o ToString(i), 0, base, 0)
ViaStackOf(n, rportForm) == [i \in 1..n |-> ViaOf(i, rportForm)]
RROf(i) == RtE(SipU("", "10.0.3." \o ToString(i), 5060, LR))
RRStackOf(n) == [i \in 1..n |-> RROf(i)]

StaticTab == << [pat |-> <<"e",".","x">>, proto |-> "udp", nhost |-> "10.0.1.4", nport |-> 6001],
                [pat |-> <<"*",".","y">>, proto |-> "tcp", nhost |-> "10.0.1.5", nport |-> 0] >>
StaticTabD == StaticTab \o << [pat |-> DEFAULT, proto |-> "udp", nhost |-> "10.0.1.6", nport |-> 0] >>
ToHost(c) == CASE c \in {"exact"} -> <<"e",".","x">> [] c = "wild" -> <<"w",".","y">> [] c = "ext" -> <<"e",".","x","y","z">> [] c = "pre" -> <<"p","e",".","x">> [] OTHER -> <<"z",".","z">>
ToHostStr(c) == CASE c = "exact" -> "e.x" [] c = "wild" -> "w.y" [] c = "ext" -> "e.xyz" [] c = "pre" -> "pe.x" [] OTHER -> "z.z"

Names == << [raw |-> "svc.example.com", user |-> "", host |-> "svc.example.com", hasat |-> FALSE],
            [raw |-> "sos@emergency.example", user |-> "sos", host |-> "emergency.example", hasat |-> TRUE],
            [raw |-> "urn:service:sos", user |-> "", host |-> "", hasat |-> FALSE],
            \* several names on one host: a later name must not be shadowed by an earlier one of the same host
            [raw |-> "police@emergency.example", user |-> "police", host |-> "emergency.example", hasat |-> TRUE],
            [raw |-> "alice@dual.example", user |-> "alice", host |-> "dual.example", hasat |-> TRUE],
            [raw |-> "dual.example", user |-> "", host |-> "dual.example", hasat |-> FALSE] >>
Ruri(c, lport) ==
    CASE c = "lit"      -> SipU("alice", "svc.example.com", 0, <<>>)
      [] c = "userhost" -> SipU("sos", "emergency.example", 0, <<>>)
      [] c = "userhost2" -> SipU("police", "emergency.example", 0, <<>>)  \* the second user@host name of that host
      [] c = "userhost.miss" -> SipU("fire", "emergency.example", 0, <<>>) \* a user no name of that host lists
      [] c = "hostafter" -> SipU("bob", "dual.example", 0, <<>>)          \* matched by the bare host name that FOLLOWS a user@host name of the host
      [] c = "userhost.first" -> SipU("alice", "dual.example", 0, <<>>)
      [] c = "regex"    -> SipU("x911", "any.example", 0, <<>>)        \* matches a name only when used as a regular expression
      [] c = "urn"      -> AbsU("urn", "service:sos")
      [] c = "tel"      -> AbsU("tel", "+15551234")
      [] c = "listener" -> SipU("", LADDR, lport, <<>>)
      [] c = "listener.wrongport" -> SipU("", LADDR, lport + 1, <<>>)
      [] c = "foreign"  -> SipU("bob", "elsewhere.example", 0, <<>>)

Resolv == [h \in {LADDR, "10.0.0.2", "10.0.9.9", "10.0.1.1", "10.0.1.2", "10.0.1.3", "10.0.1.4", "10.0.1.5", "10.0.1.6",
                  "10.0.2.1", "10.0.2.2", "10.0.2.3", "1.2.3.4", "10.0.5.5", "10.0.4.1"} |-> h]
          @@ (ALIAS :> LADDR) @@ ("n1.example.com" :> "10.0.1.7") @@ ("client.example.com" :> "10.0.2.9")

AllTrans(lport) == ("p1.t1" :> [lid |-> "p1.t1", proto |-> "UDP", addr |-> LADDR, port |-> lport]) @@
                   ("p1.t2" :> [lid |-> "p1.t2", proto |-> "TCP", addr |-> LADDR, port |-> lport + 1]) @@
                   ("p1.t3" :> [lid |-> "p1.t3", proto |-> "UDP", addr |-> LADDR, port |-> lport + 2]) @@
                   ("p2.t1" :> [lid |-> "p2.t1", proto |-> "UDP", addr |-> "10.0.0.2", port |-> lport])

\* orders of the headers that surround the routing headers (position of From / Max-Forwards decides where Record-Route goes)
Body(order, via, rr, route, to) ==
    LET V == via  R == rr  RT == route
        F == <<Line("from", "From", <<AddrE(SipU("a", "a.example", 0, <<>>), "ft")>>)>>
        T == <<to>>
        M == <<Oth("maxfwd", "Max-Forwards", "70")>>
        X == <<Oth("other", "X-Ext", "v1")>>
        C == <<Oth("callid", "Call-ID", "cid1"), Oth("cseq", "CSeq", "1 INVITE"), Oth("clen", "Content-Length", "0")>>
    IN CASE order = "std"      -> V \o RT \o R \o M \o F \o T \o C \o X
         [] order = "from1st"  -> F \o X \o V \o M \o T \o R \o RT \o C
         [] order = "mf1st"    -> M \o T \o V \o F \o R \o X \o RT \o C
         [] order = "nofrommf" -> X \o V \o T \o RT \o R \o C
         [] order = "viaLast"  -> T \o F \o M \o R \o RT \o C \o V \o X
         [] order = "rr1st"    -> R \o RT \o V \o X \o M \o F \o T \o C
         [] order = "clenmid"  -> V \o <<Oth("clen", "l", "0")>> \o RT \o F \o T \o R \o <<Oth("callid", "i", "cid1"), Oth("cseq", "CSeq", "1 INVITE")>> \o X

Recipes ==
    [ kind : Kinds, lport : LPorts, keep : Keeps, mustrr : MustRRs, recv : Recvs, pool : Pools, learn : Learns,
      to : ToClasses, ruri : RuriClasses, nvia : ViaLens, nrr : RRLens, order : HdrOrders, rport : RportForms,
      rvia : RespVias, status : Statuses ]

VARIABLES rc, route, rlay, vlay, rrlay      \* route: Route entry symbols; *lay: header-line layouts (group sizes)
vars == <<rc, route, rlay, vlay, rrlay>>

---------------------------------------------------------------------------
Env == [ keep |-> rc.keep, names |-> Names, static |-> (IF rc.to = "default" THEN StaticTabD ELSE StaticTab),
         resolv |-> Resolv, rx |-> [sip |-> rc.ruri = "regex", abs |-> FALSE], tohost |-> ToHost(rc.to),
         L |-> AllTrans(rc.lport)["p1.t1"], trans |-> <<AllTrans(rc.lport)["p1.t1"], AllTrans(rc.lport)["p1.t2"], AllTrans(rc.lport)["p1.t3"]>>,
         all |-> AllTrans(rc.lport), mustrr |-> rc.mustrr, recv |-> rc.recv, src |-> [ip |-> "10.0.5.5", port |-> 24000],
         learned |-> CASE rc.learn = "none" -> <<>>
                       [] rc.learn = "hop.p1" -> ("10.0.1.1" :> "p1.t1") @@ ("10.0.1.2" :> "p1.t2") @@ ("10.0.1.4" :> "p1.t1") @@ ("n1.example.com" :> "p1.t1")
                       [] rc.learn = "hop.p1real" -> ("10.0.1.1" :> "p1.t3") @@ ("10.0.1.2" :> "p1.t3") @@ ("10.0.1.4" :> "p1.t3") @@ ("10.0.1.5" :> "p1.t3")
                       \* learnt from a request that a BACKEND's address sent through p1.t1 (its source and the hosts in its Via)
                       [] rc.learn = "hop.bk" -> ("10.0.4.1" :> "p1.t1") @@ ("10.0.1.1" :> "p1.t1") @@ ("10.0.1.4" :> "p1.t1") @@ ("n1.example.com" :> "p1.t1")
                       \* the user agent a response will go back to has itself sent a request through the real UDP listener p1.t3
                       [] rc.learn = "ua.p1real" -> ("10.0.2.1" :> "p1.t3")
                       [] rc.learn = "hop.p2" -> ("10.0.1.1" :> "p2.t1") @@ ("10.0.1.5" :> "p2.t1"),
         pool |-> IF rc.pool = "empty" THEN {} ELSE {"10.0.4.1:5060", "10.0.4.2:5060"} ]

RouteEnts == [i \in DOMAIN route |-> RouteEntry(route[i], rc.lport)]
ToLine == Line("to", "To", <<AddrE(SipU("b", ToHostStr(rc.to), 0, <<>>), "")>>)
ReqMsg == [kind |-> "req", method |-> "INVITE", status |-> 0, start |-> "INVITE " \o Ruri(rc.ruri, rc.lport).raw, ruri |-> Ruri(rc.ruri, rc.lport),
           hdrs |-> Body(rc.order, ToLines("via", "Via", Group(ViaStackOf(rc.nvia, rc.rport), vlay)),
                         ToLines("rr", "Record-Route", Group(RRStackOf(rc.nrr), rrlay)),
                         ToLines("route", "Route", Group(RouteEnts, rlay)), ToLine),
           body |-> "empty", blen |-> 0]

\* responses: the Via stack shapes of C02
RespStack ==
    LET own == ViaE("UDP", LADDR, rc.lport, << <<"branch", "z9hG4bKown">> >>, 0)
        plain == ViaE("UDP", "10.0.2.1", 5062, << <<"branch", "z9hG4bKc">> >>, 0)
        nop == ViaE("UDP", "10.0.2.2", 0, << <<"branch", "z9hG4bKc">> >>, 0)
        rcv == ViaE("UDP", "client.example.com", 5062, << <<"branch", "z9hG4bKc">>, <<"received", "10.0.2.3">> >>, 0)
        rcvrp == ViaE("UDP", "client.example.com", 5062, << <<"received", "10.0.2.3">>, <<"rport", "7777">>, <<"branch", "z9hG4bKc">> >>, 7777)
        rponly == ViaE("UDP", "10.0.2.1", 5062, << <<"rport", "7777">>, <<"branch", "z9hG4bKc">> >>, 7777)     \* rport without received: ignored
        rpempty == ViaE("UDP", "10.0.2.1", 5062, << <<"received", "10.0.2.3">>, <<"rport", NoVal>>, <<"branch", "z9hG4bKc">> >>, 0)
        rpenop == ViaE("UDP", "client.example.com", 0, << <<"rport", NoVal>>, <<"received", "10.0.2.3">>, <<"branch", "z9hG4bKc">> >>, 0)
        tcp == ViaE("TCP", "10.0.2.1", 5062, << <<"branch", "z9hG4bKc">> >>, 0)
        tls == ViaE("TLS", "10.0.2.1", 0, << <<"branch", "z9hG4bKc">> >>, 0)
        sctp == ViaE("SCTP", "10.0.2.1", 5062, << <<"branch", "z9hG4bKc">> >>, 0)
        deep == ViaE("UDP", "10.0.2.2", 5064, << <<"branch", "z9hG4bKd">> >>, 0)
    IN CASE rc.rvia = "own"       -> <<own>>
         [] rc.rvia = "plain"     -> <<own, plain>>
         [] rc.rvia = "noport"    -> <<own, nop, deep>>
         [] rc.rvia = "received"  -> <<own, rcv>>
         [] rc.rvia = "rcv.rport" -> <<own, rcvrp, deep>>
         [] rc.rvia = "rportonly" -> <<own, rponly>>
         [] rc.rvia = "rportempty"-> <<own, rpempty, deep>>
         [] rc.rvia = "rpempty.noport" -> <<own, rpenop, deep>>
         [] rc.rvia = "tcp"       -> <<own, tcp>>
         [] rc.rvia = "tls"       -> <<own, tls, deep>>
         [] rc.rvia = "sctp"      -> <<own, sctp>>
         [] rc.rvia = "deep3"     -> <<own, plain, deep, nop>>
RespMsg ==
    [kind |-> "resp", method |-> "INVITE", status |-> rc.status, start |-> "SIP/2.0 " \o ToString(rc.status), ruri |-> EmptyUri,
     hdrs |-> Body(rc.order, ToLines("via", "Via", Group(RespStack, vlay)), ToLines("rr", "Record-Route", Group(RRStackOf(rc.nrr), rrlay)), <<>>, ToLine),
     body |-> "empty", blen |-> 0]

---------------------------------------------------------------------------
Init == /\ rc \in Recipes
        /\ route \in (IF rc.kind = "req" THEN RouteSymStacks ELSE {<<>>})
        /\ rlay \in Comps(Len(route))
        /\ vlay \in Comps(IF rc.kind = "req" THEN rc.nvia ELSE Len(RespStack))
        /\ rrlay \in Comps(rc.nrr)
Next == UNCHANGED vars
Spec == Init /\ [][Next]_vars

(* leg M                                                                   *)
Pick == IF Env.pool = {} THEN "" ELSE "10.0.4.1:5060"
ReqOuts == ORequest(Env, ReqMsg, Pick).outs

ReqOK == rc.kind = "req" =>
           /\ JudgeC03(Env, ReqMsg, ReqOuts) = ""
           /\ JudgeC13(Env, ReqMsg, ReqOuts) = ""
           /\ JudgeC06(Env, ReqMsg, ReqOuts) = ""
           /\ JudgeC07(Env, ReqMsg, ReqOuts) = ""
           /\ JudgeC01(ReqMsg, ReqOuts) = ""
RespOK == rc.kind = "resp" =>
               /\ JudgeC02(Env, RespMsg, OResponse(Env, RespMsg)) = ""
               /\ JudgeC01(RespMsg, OResponse(Env, RespMsg)) = ""

\* leg M of C17: the line-level operators commute with regrouping - the same message with every list entry on a line
\* of its own is treated the same
Ones(n) == [i \in 1..n |-> 1]
ReqMsgFlat == [ReqMsg EXCEPT !.hdrs = Body(rc.order, ToLines("via", "Via", Group(ViaStackOf(rc.nvia, rc.rport), Ones(rc.nvia))),
                                            ToLines("rr", "Record-Route", Group(RRStackOf(rc.nrr), Ones(rc.nrr))),
                                            ToLines("route", "Route", Group(RouteEnts, Ones(Len(route)))), ToLine)]
RespMsgFlat == [RespMsg EXCEPT !.hdrs = Body(rc.order, ToLines("via", "Via", Group(RespStack, Ones(Len(RespStack)))),
                                              ToLines("rr", "Record-Route", Group(RRStackOf(rc.nrr), Ones(rc.nrr))), <<>>, ToLine)]
TwinOK == IF rc.kind = "req" THEN JudgeC17(ReqMsg, ReqOuts, ReqMsgFlat, ORequest(Env, ReqMsgFlat, Pick).outs) = ""
          ELSE JudgeC17(RespMsg, OResponse(Env, RespMsg), RespMsgFlat, OResponse(Env, RespMsgFlat)) = ""

\* anti-vacuity witnesses: TLC must violate these
Reach_Backend == ~(rc.kind = "req" /\ Len(ReqOuts) = 1 /\ ReqOuts[1].kind = "backend")
Reach_HopInserted == ~(rc.kind = "req" /\ Len(ReqOuts) = 1 /\ ReqOuts[1].kind = "sink" /\ Len(ViaStack(ReqOuts[1].msg)) = Len(ViaStack(ReqMsg)) + 1)
Reach_Drop == ~(rc.kind = "req" /\ Len(ReqOuts) = 0 /\ Decisions(Env, ReqMsg) = {[kind |-> "drop", host |-> "", port |-> 0, proto |-> ""]})
Reach_OwnConsumed == ~(rc.kind = "req" /\ OwnConsumed(Env, ReqMsg) /\ Len(ReqOuts) = 1)
Reach_RespRelay == ~(rc.kind = "resp" /\ Len(OResponse(Env, RespMsg)) = 1)
Reach_RespDrop == ~(rc.kind = "resp" /\ Len(ViaStack(RespMsg)) >= 2 /\ Len(OResponse(Env, RespMsg)) = 0)

(* leg R: the recipe with its layouts, one JSON line per initial state     *)
Emit == CSVWrite("%1$s", <<ToJson([rc |-> rc, route |-> route, rlay |-> rlay, vlay |-> vlay, rrlay |-> rrlay])>>, IOEnv.OUT)
=============================================================================
