------------------------------- MODULE Robust -------------------------------
(***************************************************************************)
(* Robustness of the pipeline against hostile input (C08).  Every PARTIAL   *)
(* operation the code performs on attacker-controlled values is an explicit *)
(* guarded step; a failed guard leads to "crash" (panic in the loop or a    *)
(* receive goroutine = process exit) or "balloon" (allocation out of        *)
(* proportion to the bytes received).  A message is a record of field       *)
(* CLASSES; at most two fields are hostile at once.                         *)
(*   decode  (message.go ParseMessage): start line, header lines,           *)
(*           Content-Length -> body allocation (make([]byte, n): n < 0      *)
(*           rejected; n absurd: makeslice panic / huge allocation unless   *)
(*           the body is read incrementally)                                *)
(*   learn   (proxy.go:240-245): every Via host                             *)
(*   tcpreg  (proxy.go:250-265): response hop of a request that came over   *)
(*           TCP; a host starting with '[' is sliced host[1:len-1]          *)
(*   route / dialog / relay: typed headers decoded on demand; a failed      *)
(*           decode is an error value, never an index / nil dereference     *)
(* Guarded = TRUE is the repaired design, FALSE the pinned tree (D12a/b).   *)
(***************************************************************************)
EXTENDS Integers, Sequences, FiniteSets, TLC

CONSTANT Guarded

Starts == {"ok", "garbage", "noversion", "huge", "negnum", "zeronum", "bignum"}   \* ...num: the number in the start line (status code / version) is signed, zero, or absurd but decodes
CLens  == {"ok", "missing", "negative", "2^31", "2^62", "nan", "larger", "smaller"}
Vias   == {"ok", "missing", "emptyhost", "lbracket", "brackets", "hugehost", "nobranch", "badport", "many", "sctp"}
Addrs  == {"ok", "missing", "garbage", "nogt"}
Routes == {"none", "ok", "garbage", "nogt", "tls"}      \* tls: a next hop over a transport the proxy does not support
CSeqs  == {"ok", "missing", "garbage"}
Ruris  == {"ok", "empty", "siponly", "nohost"}
Bulks  == {"none", "hdrs5000", "params5000"}

Msgs == [kind : {"req", "resp"}, tr : {"udp", "tcp"}, start : Starts, clen : CLens, via : Vias, route : Routes,
         from : Addrs, to : Addrs, cseq : CSeqs, ruri : Ruris, bulk : Bulks]
Hostile(m) == Cardinality({f \in {"start", "clen", "via", "from", "to", "cseq", "ruri"} : m[f] # "ok"})
              + (IF m.route \in {"garbage", "nogt", "tls"} THEN 1 ELSE 0) + (IF m.bulk # "none" THEN 1 ELSE 0)

VARIABLES m, stage, state
vars == <<m, stage, state>>
Init == m \in {x \in Msgs : Hostile(x) <= 2} /\ stage = "decode" /\ state = "run"

Decode ==
    /\ stage = "decode"
    /\ IF m.start \in {"garbage", "noversion"} \/ m.clen \in {"missing", "nan", "negative"} THEN state' = "discarded" /\ stage' = "end"
       ELSE IF m.clen = "2^62" THEN (IF Guarded THEN state' = "discarded" ELSE state' = "crash") /\ stage' = "end"      \* makeslice: len out of range
       ELSE IF m.clen = "2^31" THEN (IF Guarded THEN state' = "discarded" ELSE state' = "balloon") /\ stage' = "end"    \* 2 GiB for a 60-byte datagram
       ELSE IF m.clen = "larger" THEN state' = "discarded" /\ stage' = "end"          \* UDP: discarded; TCP: that connection waits / is closed at EOF
       ELSE stage' = "learn" /\ UNCHANGED state
    /\ UNCHANGED m

\* ForEachViaParam: an undecodable Via line is skipped (error value)
Learn == stage = "learn" /\ stage' = "tcpreg" /\ UNCHANGED <<m, state>>

TcpReg ==
    /\ stage = "tcpreg"
    /\ IF m.kind = "req" /\ m.tr = "tcp" /\ m.via = "lbracket"
       THEN (IF Guarded THEN stage' = "classify" /\ UNCHANGED state ELSE state' = "crash" /\ stage' = "end")   \* host[1:len(host)-1] with host = "["
       ELSE stage' = "classify" /\ UNCHANGED state
    /\ UNCHANGED m

\* IsFinalResponse / status class (message.go): statusCode \div 100 looked up in a map - TOTAL for every integer the
\* start line decodes to (negative, zero, beyond 699); the step is here so that the class is named and enumerated
Classify == stage = "classify" /\ stage' = "route" /\ UNCHANGED <<m, state>>

\* everything after: typed headers are decoded on demand, a failed decode is an error value -> drop
Route == /\ stage = "route"
         /\ state' = IF m.kind = "req"
                     THEN (IF m.route \in {"garbage", "nogt", "tls"} \/ m.ruri # "ok" \/ m.to # "ok" THEN "dropped-or-relayed" ELSE "relayed")
                     ELSE (IF m.via \in {"ok", "nobranch", "hugehost"} THEN "relayed" ELSE "dropped-or-relayed")
         /\ stage' = "end"
         /\ UNCHANGED m
Next == Decode \/ Learn \/ TcpReg \/ Classify \/ Route
Spec == Init /\ [][Next]_vars
NeverCrash == state \notin {"crash", "balloon"}
=============================================================================
