SPECIFICATION Spec
CONSTANTS Pinned = FALSE  Small = FALSE
INVARIANT LawInv
