---------------------------- MODULE Trace_Robust ----------------------------
(* Trace validation for C08: one line per hostile input (or mutation batch)  *)
(* that the proxy SURVIVED (a crash ends the driver and is reported by the   *)
(* check with the input that was being processed).  Contract:                *)
(*   the sentinel request that follows is still relayed (no wedge);          *)
(*   memory allocated meanwhile <= 256 x bytes received + 4 MiB;             *)
(*   an undecodable start line over TCP closes that connection, and so does  *)
(*   a stream that ends (FIN) inside a message - e.garbage marks both.       *)
EXTENDS Integers, Sequences, TLC, Json, IOUtils
Trace == ndJsonDeserialize(IOEnv.TRACE_FILE)
VARIABLE l
Verdict(e) ==
    IF ~e.sentinel THEN "P:C08:proxy-stopped-serving-the-traffic-that-follows"
    ELSE IF e.alloc_kib > (256 * e.bytes) \div 1024 + 4096 THEN "P:C08:memory-allocated-out-of-proportion-to-the-bytes-received"
    ELSE IF e.garbage /\ ~e.closed THEN "P:C08:TCP-connection-carrying-undecodable-input-not-closed"
    ELSE ""
TraceInit == l = 1
TraceNext == /\ l <= Len(Trace) /\ l' = l + 1
             /\ LET e == Trace[l]  v == Verdict(e) IN
                  IF v # "" THEN PrintT("FAIL|" \o ToString(l) \o "|" \o e.case \o "|" \o v \o "|" \o e.cls) ELSE TRUE
TraceSpec == TraceInit /\ [][TraceNext]_l
Consumed == (l = Len(Trace) + 1) => PrintT("CONSUMED|" \o ToString(Len(Trace)))
=============================================================================
