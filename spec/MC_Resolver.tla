---------------------------- MODULE MC_Resolver ----------------------------
(* All sequences of resolution outcomes up to MaxLen over the subsets of     *)
(* Addrs and failure, delivered with quiescence between steps: the           *)
(* operational counters yield exactly the declarative contribution.  The     *)
(* failure-counting subtlety: after the list was emptied the counter starts  *)
(* again, and a success in between resets it.                                *)
EXTENDS ResolverOps, TLC, Json, CSV, IOUtils
CONSTANTS Addrs, MaxLen
VARIABLES e, member, hist
vars == <<e, member, hist>>
Outcomes == {[ok |-> TRUE, addrs |-> A] : A \in SUBSET Addrs} \cup {[ok |-> FALSE, addrs |-> {}]}
Init == e = [addrs |-> {}, failed |-> 0] /\ member = {} /\ hist = <<>>
Next == /\ Len(hist) < MaxLen
        /\ \E o \in Outcomes : LET r == Resolved(e, o) IN
              e' = r.e /\ member' = Apply(member, r) /\ hist' = Append(hist, o)
Spec == Init /\ [][Next]_vars
Tracks == member = Contribution(hist) /\ e.addrs = member
SetToSeq(S) == CHOOSE q \in [1..Cardinality(S) -> S] : Range(q) = S
Emit == (Len(hist) = MaxLen) => CSVWrite("%1$s", <<ToJson([i \in DOMAIN hist |-> [ok |-> hist[i].ok, addrs |-> SetToSeq(hist[i].addrs)]])>>, IOEnv.OUT)
Reach_Emptied == ~(member = {} /\ Len(hist) >= 5 /\ \E i \in DOMAIN hist : hist[i].ok /\ hist[i].addrs # {})
=============================================================================
