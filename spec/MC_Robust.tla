----------------------------- MODULE MC_Robust -----------------------------
EXTENDS Robust, Json, CSV, IOUtils
Emit == (stage = "decode") => CSVWrite("%1$s", <<ToJson(m)>>, IOEnv.OUT)
=============================================================================
