SPECIFICATION Spec
CONSTANTS MaxUP = 3  MaxHP = 3  MaxVia = 2  MaxVP = 2
INVARIANTS Laws
CONSTRAINT Emit
