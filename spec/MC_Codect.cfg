SPECIFICATION Spec
CONSTANTS MaxUP = 3  MaxHP = 3  MaxVia = 3  MaxVP = 3
INVARIANTS Laws
CONSTRAINT Emit
