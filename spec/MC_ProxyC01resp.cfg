SPECIFICATION Spec
CONSTANTS
  RouteFirst = {"-"}
  RouteRest = {"hop1"}
  MaxRoute = 1
  ViaLens = {1}
  RRLens = {0, 1, 2}
  ToClasses = {"none"}
  RuriClasses = {"lit"}
  Keeps = {FALSE}
  LPorts = {5060}
  Pools = {"two"}
  Learns = {"none"}
  MustRRs = {FALSE}
  Recvs = {TRUE}
  HdrOrders = {"std", "from1st", "mf1st", "viaLast", "rr1st", "clenmid"}
  RportForms = {"none"}
  Kinds = {"resp"}
  RespVias = {"plain", "noport", "received", "tcp", "deep3"}
  Statuses = {100, 180, 200, 404, 603}
INVARIANTS ReqOK RespOK
CONSTRAINT Emit
