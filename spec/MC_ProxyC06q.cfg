SPECIFICATION Spec
CONSTANTS
  RouteFirst = {"-", "hop1", "hop2.tcp", "hop4.name"}
  RouteRest = {"hop1"}
  MaxRoute = 2
  ViaLens = {0, 1, 2}
  RRLens = {0, 1, 2}
  ToClasses = {"exact", "none"}
  RuriClasses = {"lit", "foreign"}
  Keeps = {FALSE}
  LPorts = {5060}
  Pools = {"two"}
  Learns = {"none", "hop.p1", "hop.bk", "hop.p2"}
  MustRRs = {TRUE, FALSE}
  Recvs = {TRUE}
  HdrOrders = {"std", "from1st", "mf1st", "nofrommf", "viaLast", "rr1st", "clenmid"}
  RportForms = {"none"}
  Kinds = {"req"}
  RespVias = {"own"}
  Statuses = {200}
INVARIANTS ReqOK RespOK
CONSTRAINT Emit
