SPECIFICATION TraceSpec
CONSTANT Focus = "C15"
INVARIANT Consumed
