----------------------------- MODULE DialogOps -----------------------------
(* Dialog identity (message.go GetDialog, dialog.go).                       *)
(*   Decl - the declarative identity of property C16: Call-ID plus the      *)
(*          unordered pair (a multiset) of (tag, URI) endpoint halves.      *)
(*   Code - the character sequence the code builds: the two halves ordered  *)
(*          and joined.  Characters are small integers, 0 is '-'.           *)
(* Pinned = TRUE models the tree as pinned (halves ordered by address only, *)
(* plain '-' join: defects D6, D14); Pinned = FALSE the repaired code       *)
(* (ordered by the whole half, every component length-prefixed).            *)
EXTENDS Integers, Sequences, FiniteSets

DASH == 0

RECURSIVE Less(_, _)
Less(a, b) == IF a = <<>> THEN b # <<>>
              ELSE IF b = <<>> THEN FALSE
              ELSE IF Head(a) # Head(b) THEN Head(a) < Head(b)
              ELSE Less(Tail(a), Tail(b))

\* m = [cid, ft, fu, tt, tu]: sequences of characters; a missing tag is <<>>
HasTags(m) == m.ft # <<>> /\ m.tt # <<>>

Decl(m) == <<m.cid, {<<m.ft, m.fu>>, <<m.tt, m.tu>>}, (m.ft = m.tt /\ m.fu = m.tu)>>

Len1(s) == <<100 + Len(s)>>      \* a length prefix, outside every character alphabet
Half(t, u, Pinned) == IF Pinned THEN t \o <<DASH>> \o u ELSE Len1(t) \o t \o <<DASH>> \o u
Join3(c, h1, h2, Pinned) ==
    IF Pinned THEN c \o <<DASH>> \o h1 \o <<DASH>> \o h2
    ELSE Len1(c) \o c \o <<DASH>> \o Len1(h1) \o h1 \o <<DASH>> \o Len1(h2) \o h2

Code(m, Pinned) ==
    LET hf == Half(m.ft, m.fu, Pinned)
        ht == Half(m.tt, m.tu, Pinned)
        fromFirst == IF Pinned THEN Less(m.fu, m.tu) ELSE Less(hf, ht)
    IN IF fromFirst THEN Join3(m.cid, hf, ht, Pinned) ELSE Join3(m.cid, ht, hf, Pinned)

\* C16: the code's identity and the declarative identity induce the same equivalence
Law(a, b, Pinned) == (Code(a, Pinned) = Code(b, Pinned)) <=> (Decl(a) = Decl(b))
=============================================================================
