SPECIFICATION Spec
CONSTANTS Pinned = TRUE  Small = TRUE
INVARIANT LawInv
