----------------------------- MODULE ConfigOps -----------------------------
(***************************************************************************)
(* What the YAML configuration and the environment MEAN (main.go) - pure    *)
(* operators shared by the wiring trace specs.  The wiring drivers start    *)
(* services through loadConfigFromReader / createPreConfigHostResolver /    *)
(* createPreConfigRoute / startProxy and log the configuration as written;  *)
(* TLC computes the effective parameters from it with these operators and   *)
(* judges the observed behaviour against them - no expectation is coded in  *)
(* the drivers.                                                             *)
(***************************************************************************)
EXTENDS Integers, Sequences, FiniteSets

\* Dialog timeout of a service in seconds (startProxy, getDefaultDialogTimeout): the dialogTimeout key when it is
\* positive; else the environment variable DEFAULT_DIALOG_TIMEOUT when it is set to a number; else 1200.
\* c = [yaml_present, yaml, env_set, env_numeric, env]
EffTimeout(c) == IF c.yaml_present /\ c.yaml > 0 THEN c.yaml
                 ELSE IF c.env_set /\ c.env_numeric THEN c.env
                 ELSE 1200

\* keep-next-hop-route of a service (toKeepNextHopRoute): the keepNextHopRoute key when it is a non-empty string, else
\* the environment variable KEEP_NEXT_HOP_ROUTE; on iff that text, lower-cased, is one of the documented spellings.
TrueSpellings == {"true", "yes", "1", "on", "t", "y"}
EffKeep(c) == (IF c.yaml # "" THEN c.yaml ELSE c.env) \in TrueSpellings       \* c = [yaml, env], both lower-cased

\* received-support of a listener: on unless  no-received: true
EffRecv(noReceived) == ~noReceived
\* ... from the key as written in the listens entry: "true", "false", or "absent"
EffRecvKey(t) == t # "true"
=============================================================================
