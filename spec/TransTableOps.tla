--------------------------- MODULE TransTableOps ---------------------------
(***************************************************************************)
(* The client-transport table of ClientTransportMgr (transport.go:205-318) *)
(* as pure operators over a state record                                    *)
(*    s = [tab, now, lastClean, nobj]                                       *)
(* shared verbatim by the state machine (TransTable) and the trace spec     *)
(* (Trace_TransTable).                                                      *)
(*   key   = <<proto, dest, tx>>   tx = "" for the per-destination entry    *)
(*           (getFullAddr: only tcp keys carry the transaction id)          *)
(*   entry = [pri, sec]  - a FailOverClientTransport                        *)
(*   object= [k, id, c, exp]                                                *)
(*           k = "none"                      nil                            *)
(*           k = "in"   c = connection, exp  NewTCPClientTransportWithConn  *)
(*                                           (not reconnectable, 3600 s)    *)
(*           k = "out"  id                   NewTCPClientTransport          *)
(*                                           (reconnectable, never expires) *)
(*           k = "udp"  id                   NewUDPClientTransport          *)
(* Time is in seconds.                                                      *)
(***************************************************************************)
EXTENDS Integers, Sequences, FiniteSets, TLC

NoObj == [k |-> "none", id |-> 0, c |-> "", exp |-> 0]
In(c, exp) == [k |-> "in", id |-> 0, c |-> c, exp |-> exp]
Out(id) == [k |-> "out", id |-> id, c |-> "", exp |-> 0]
Udp(id) == [k |-> "udp", id |-> id, c |-> "", exp |-> 0]

Put(f, k, v) == [x \in DOMAIN f \cup {k} |-> IF x = k THEN v ELSE f[x]]
Drop(f, k) == [x \in DOMAIN f \ {k} |-> f[x]]

\* getFullAddr (transport.go:260-268)
KeyOf(proto, d, t) == <<proto, d, IF proto = "tcp" THEN t ELSE "">>
PeerKey(d) == <<"tcp", d, "">>

\* IsExpired (transport.go:130,201,380): expire > 0 /\ now > expire
ObjExpired(o, now) == o.k = "in" /\ now > o.exp
EntryExpired(e, now) == ObjExpired(e.pri, now) \/ ObjExpired(e.sec, now)

\* cleanExpiredTransport (transport.go:300-318): at most once a minute, inside every GetTransport
SweepDue(s) == s.now - s.lastClean >= 60
Sweep(s) == IF ~SweepDue(s) THEN s
            ELSE [s EXCEPT !.lastClean = s.now,
                           !.tab = [k \in {x \in DOMAIN s.tab : ~EntryExpired(s.tab[x], s.now)} |-> s.tab[k]]]

\* GetTransport (transport.go:221-247) + createClientTransport (270-298); returns the state and the key looked up
Get(s0, proto, d, t) ==
    LET s == Sweep(s0)  key == KeyOf(proto, d, t) IN
    IF key \in DOMAIN s.tab THEN [s |-> s, key |-> key]
    ELSE IF proto = "udp"
    THEN [s |-> [s EXCEPT !.tab = Put(s.tab, key, [pri |-> Udp(s.nobj + 1), sec |-> NoObj]), !.nobj = s.nobj + 1], key |-> key]
    ELSE IF PeerKey(d) \in DOMAIN s.tab
    THEN [s |-> [s EXCEPT !.tab = Put(s.tab, key, [pri |-> NoObj, sec |-> s.tab[PeerKey(d)].sec])], key |-> key]     \* shares the outbound client of its destination
    ELSE LET cl == Out(s.nobj + 1)
             t1 == Put(s.tab, PeerKey(d), [pri |-> NoObj, sec |-> cl])
         IN [s |-> [s EXCEPT !.tab = Put(t1, key, [pri |-> NoObj, sec |-> cl]), !.nobj = s.nobj + 1], key |-> key]

\* handleRawMessage (proxy.go:253-270): a request read from TCP connection c whose response hop is d
Register(s0, d, t, c) ==
    LET r == Get(s0, "tcp", d, t) IN [r.s EXCEPT !.tab[r.key].pri = In(c, r.s.now + 3600)]

\* the loop's ConnectionAccepted branch (proxy.go:222-234): connection c accepted from address d
Accepted(s0, d, c) ==
    LET r == Get(s0, "tcp", d, "") IN [r.s EXCEPT !.tab[r.key].pri = In(c, r.s.now + 3600)]

\* sendMessage (proxy.go:645-663) + FailOverClientTransport.Send: look up, a final response deletes the entry first,
\* then the primary carries the message if there is one, else the secondary.  via = the object that carried it.
Send(s0, proto, d, t, final) ==
    LET r == Get(s0, proto, d, t)
        e == r.s.tab[r.key]
    IN [s |-> IF final THEN [r.s EXCEPT !.tab = Drop(r.s.tab, r.key)] ELSE r.s,
        via |-> IF e.pri.k # "none" THEN e.pri ELSE e.sec]

Tick(s, n) == [s EXCEPT !.now = s.now + n]

\* ---- what the driver can see of the real table (pointer identities reduced to relations) ----
\* per entry: key, kind and connection of the primary, whether the primary has expired, and how its secondary
\* relates to the per-destination entry ("peer": the very same client object; "own": another one; "none")
SecRel(s, k) == LET e == s.tab[k] IN
                IF e.sec.k = "none" THEN "none"
                ELSE IF PeerKey(k[2]) \in DOMAIN s.tab /\ s.tab[PeerKey(k[2])].sec = e.sec THEN "peer" ELSE "own"
Proj(s) == {[proto |-> k[1], d |-> k[2], t |-> k[3], pri |-> s.tab[k].pri.k, c |-> s.tab[k].pri.c,
             expired |-> ObjExpired(s.tab[k].pri, s.now), sec |-> SecRel(s, k)] : k \in DOMAIN s.tab}
=============================================================================
