SPECIFICATION Spec
CONSTANTS
  Conns <- MCConns
  AddrOf <- MCAddrOf
  HopOf <- MCHopOf
  Dests <- MCDests
  Txs <- MCTxs
  Ticks <- MCTicks
  MaxTicks = 2
  MaxObj = 3
CONSTRAINT Bound
INVARIANTS Reach_UdpChurn
