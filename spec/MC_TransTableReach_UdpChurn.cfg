SPECIFICATION Spec
CONSTANTS
  Conns <- MCConns
  AddrOf <- MCAddrOf
  HopOf <- MCHopOf
  Dests <- MCDests
  Txs <- MCTxs
  Ticks <- MCTicks
  MaxTicks = 3
  MaxObj = 4
CONSTRAINT Bound
INVARIANTS Reach_UdpChurn
