----------------------------- MODULE MC_Dialog -----------------------------
(* Self-composed bounded instance: every ordered pair of messages over the  *)
(* alphabets is one initial state; the invariant is the law of C16.         *)
EXTENDS DialogOps, TLC, Json, CSV, IOUtils
CONSTANTS Pinned, Small

\* characters: 0 '-', 1 't', 2 'u', 3 'c', 4 'd'; URIs are their dialog-address renderings (see the driver's table)
Cids == IF Small THEN { <<3>>, <<3,0,1>> } ELSE { <<3>>, <<3,0,1>>, <<4>> }
Tags == { <<1>>, <<2>>, <<1,0,2>>, <<0>> }
Uris == IF Small THEN { <<10>>, <<11,10>>, <<14>> }
        ELSE { <<10>>, <<11,10>>, <<11,10,12>>, <<13,10>>, <<14>>, <<15,0,16>> }
Msgs == [cid : Cids, ft : Tags, fu : Uris, tt : Tags, tu : Uris]

VARIABLES a, b
Init == a \in Msgs /\ b \in Msgs
Next == UNCHANGED <<a, b>>
Spec == Init /\ [][Next]_<<a, b>>
LawInv == Law(a, b, Pinned)

\* emission of the message universe (leg R): one message per line
EmitInit == a \in Msgs /\ b = a
EmitSpec == EmitInit /\ [][Next]_<<a, b>>
Emit == CSVWrite("%1$s", <<ToJson(a)>>, IOEnv.OUT)
=============================================================================
