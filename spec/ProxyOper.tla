----------------------------- MODULE ProxyOper -----------------------------
(***************************************************************************)
(* Operational model of ONE loop iteration of the proxy (proxy.go), shaped  *)
(* like the code: the stages of handleRawMessage and HandleMessage in their *)
(* order, working on header LINES with the line-level operators of          *)
(* ProxyOps.  It is deliberately written without using the declarative      *)
(* vocabulary of ProxyJudge (flattened stacks, precedence table): leg M     *)
(* checks that this pipeline satisfies those relations for every message of *)
(* a bounded universe; leg T uses it only for "model deviation" warnings.   *)
(***************************************************************************)
EXTENDS ProxyOps, StaticOps

OResolve(env, h) == IF h \in DOMAIN env.resolv THEN env.resolv[h] ELSE ""
\* isSameAddress (proxy.go:301-319)
OSame(env, a, b) == IF a = b THEN TRUE
                    ELSE LET i1 == OResolve(env, a) IN
                         IF i1 = "" THEN FALSE
                         ELSE LET i2 == OResolve(env, b) IN IF i2 = "" THEN FALSE ELSE i1 = i2

FirstEnt(hs, c) == hs[FirstPos(hs, c)].ents[1]

\* handleRawMessage: learn (proxy.go:240-245) - peer address, then every Via host of every Via line
OLearn(env, hs) ==
    LET vl == LinesOf(hs, "via")
        hosts == {env.src.ip} \cup UNION {{vl[i].ents[j].host : j \in {k \in DOMAIN vl[i].ents : ~vl[i].ents[k].bad}} : i \in DOMAIN vl}
    IN [h \in DOMAIN env.learned \cup hosts |-> IF h \in hosts THEN env.L.lid ELSE env.learned[h]]

\* isMyMessage (proxy.go:95-119)
OMine(env, m) ==
    LET u == m.ruri IN
    IF ~IsSip(u)
    THEN (\E i \in DOMAIN env.names : env.names[i].raw = u.raw) \/ env.rx.abs
    ELSE IF u.host = env.L.addr /\ UriPort(u) = env.L.port THEN TRUE
    ELSE IF \E i \in DOMAIN env.names :
               IF env.names[i].hasat THEN u.host = env.names[i].host /\ u.user = env.names[i].user
               ELSE u.host = env.names[i].raw
         THEN TRUE
    ELSE env.rx.sip

OwnVia(t) == [proto |-> t.proto, host |-> t.addr, port |-> t.port, rport |-> 0, params |-> << <<"branch", "z9hG4bK-fresh">> >>,
              disp |-> "", uri |-> [scheme |-> "", user |-> "", pass |-> "", host |-> "", port |-> 0, params |-> <<>>, hdrs |-> <<>>, opaque |-> "", raw |-> ""],
              hparams |-> <<>>, bad |-> FALSE]
OwnRR(t) == [proto |-> "", host |-> "", port |-> 0, rport |-> 0, params |-> <<>>, disp |-> "",
             uri |-> [scheme |-> "sip", user |-> "", pass |-> "", host |-> t.addr, port |-> t.port,
                      params |-> << <<"lr", NoVal>> >>, hdrs |-> <<>>, opaque |-> "", raw |-> ""],
             hparams |-> <<>>, bad |-> FALSE]

\* addVia then addRecordRoute (proxy.go:424-452)
OInsertSelf(env, hs, t) ==
    LET h1 == PushVia(hs, OwnVia(t))
    IN IF HasCls(h1, "rr") \/ env.mustrr THEN PushRR(h1, OwnRR(t)) ELSE h1

OSupported(p) == p \in {"udp", "tcp", "UDP", "TCP", "Udp", "Tcp"}
OLower(p) == CASE p \in {"udp", "UDP", "Udp"} -> "udp" [] p \in {"tcp", "TCP", "Tcp"} -> "tcp" [] OTHER -> p

OOut(kind, addr, ip, port, proto, m, hs) ==
    [kind |-> kind, addr |-> addr, ip |-> ip, port |-> port, proto |-> proto,
     msg |-> [m EXCEPT !.hdrs = EmitHdrs(hs, ToString(m.blen))], cookie |-> TRUE, fresh |-> TRUE]

\* sendMessage (proxy.go:640-658): resolve through the table, unsupported transport -> nothing
OSend(env, m, hs, host, port, proto) ==
    LET ip == IF OResolve(env, host) = "" THEN host ELSE OResolve(env, host)
    IN IF OSupported(proto) /\ OResolve(env, host) # ""
       THEN <<OOut("sink", "", ip, port, OLower(proto), m, hs)>> ELSE <<>>

\* the request half of HandleMessage (proxy.go:373-391) after handleRawMessage (237-273);
\* pick = the backend the pool / pin table hands out (chosen by the caller)
ORequest(env, m, pick) ==
    LET learned1 == OLearn(env, m.hdrs)
        h1 == IF env.recv THEN StampTop(m.hdrs, env.src.ip, ToString(env.src.port)) ELSE m.hdrs
        \* tryRemoveTopRoute (275-299)
        own == /\ HasCls(h1, "route")
               /\ LET e == FirstEnt(h1, "route") IN
                    ~e.bad /\ IsSip(e.uri) /\ UriPort(e.uri) = env.L.port /\ OSame(env, e.uri.host, env.L.addr)
        h2 == IF own THEN PopCls(h1, "route") ELSE h1
        \* getNextRequestHopByRoute (573-596): pops unless keepNextHopRoute, before it looks at the URI
        hasR == HasCls(h2, "route") /\ ~FirstEnt(h2, "route").bad
        e2 == FirstEnt(h2, "route")
        h3 == IF hasR /\ ~env.keep THEN PopCls(h2, "route") ELSE h2
        byRoute == hasR /\ IsSip(e2.uri)
        \* getNextRequestHopByConfig (560-571)
        toOK == HasCls(h3, "to") /\ ~FirstEnt(h3, "to").bad /\ IsSip(FirstEnt(h3, "to").uri)
        st == IF toOK THEN Lookup(env.static, env.tohost) ELSE NoRoute
        hop == IF byRoute THEN [ok |-> TRUE, host |-> e2.uri.host, port |-> UriPort(e2.uri), proto |-> UriTransport(e2.uri)]
               ELSE IF st.found THEN [ok |-> TRUE, host |-> st.host, port |-> st.port, proto |-> st.proto]
               ELSE [ok |-> FALSE, host |-> "", port |-> 0, proto |-> ""]
    IN IF hop.ok
       THEN LET h4 == IF hop.host \in DOMAIN learned1 THEN OInsertSelf(env, h3, env.all[learned1[hop.host]]) ELSE h3
            IN [outs |-> OSend(env, m, h4, hop.host, hop.port, hop.proto), learned |-> learned1]
       ELSE IF OMine(env, m)
       THEN IF pick = "" THEN [outs |-> <<>>, learned |-> learned1]
            ELSE [outs |-> <<OOut("backend", pick, "", 0, "backend", m, OInsertSelf(env, h3, env.trans[1]))>>, learned |-> learned1]
       ELSE [outs |-> <<>>, learned |-> learned1]

\* the response half (proxy.go:392-411): PopVia, next hop from the new top Via
OResponse(env, m) ==
    IF ~HasCls(m.hdrs, "via") \/ FirstEnt(m.hdrs, "via").bad THEN <<>>
    ELSE LET h1 == PopCls(m.hdrs, "via") IN
         IF ~HasCls(h1, "via") \/ FirstEnt(h1, "via").bad THEN <<>>
         ELSE LET e == FirstEnt(h1, "via")
                  rcv == HasParam(e.params, "received")
                  host == IF rcv THEN ParamOf(e.params, "received") ELSE e.host
                  port == IF rcv /\ e.rport > 0 THEN e.rport ELSE ViaPort(e)
              IN OSend(env, m, h1, host, port, e.proto)
=============================================================================
