SPECIFICATION Spec
CONSTANTS
  RouteFirst = {"-", "hop1", "hop4.name", "own.addr", "own.alias"}
  RouteRest = {"hop1", "hop2.tcp", "own.addr"}
  MaxRoute = 3
  ViaLens = {1, 2}
  RRLens = {0, 1, 2}
  ToClasses = {"none"}
  RuriClasses = {"lit", "foreign"}
  Keeps = {TRUE, FALSE}
  LPorts = {5060}
  Pools = {"two"}
  Learns = {"hop.p1"}
  MustRRs = {TRUE}
  Recvs = {TRUE}
  HdrOrders = {"std", "from1st", "rr1st", "clenmid"}
  RportForms = {"none"}
  Kinds = {"req"}
  RespVias = {"own"}
  Statuses = {200}
INVARIANTS ReqOK RespOK TwinOK
CONSTRAINT Emit
