------------------------------- MODULE UdpBuf -------------------------------
(***************************************************************************)
(* UDP receive path (C10): transport.go receiveMessage / startParseMessage  *)
(* with the recycled buffers of ByteArrayPool, modelled PHYSICALLY: after a *)
(* datagram of n cells is received into a buffer, cells 1..n hold it and    *)
(* the cells beyond still hold whatever an earlier datagram left there.     *)
(* Two threads as in the code: recv (Alloc; ReadFromUDP; enqueue) and parse *)
(* (dequeue; decode; Free; deliver).                                        *)
(* A datagram d = [id, size, hdr, decl]: size cells in all, the first hdr   *)
(* of them are its header section (complete iff hdr <= size... a cut inside *)
(* the headers is hdr > size), decl = declared body length.                 *)
(* Whole = TRUE is the pinned decoder, which wraps the WHOLE buffer         *)
(* (transport.go:449); FALSE the repaired one, which wraps the first n.     *)
(***************************************************************************)
EXTENDS Integers, Sequences, FiniteSets, TLC

CONSTANTS Seqs,        \* the sequences of datagrams to explore (each: datagrams to arrive, in order)
          BufSize,     \* cells per buffer
          MaxBufs,
          Whole

VARIABLES Dgrams,      \* the datagram sequence of this behaviour (chosen initially, never changed)
          free,        \* ByteArrayPool.pool (stack of buffer ids)
          cells,       \* cells[b] : sequence of BufSize datagram ids (0 = never written)
          nbuf,        \* buffers created so far
          rpc, rbuf,   \* recv thread: "alloc" / "read";  its buffer
          next,        \* index of the next datagram to arrive
          queue,       \* msgParseChannel : <<[b, n]>>
          ppc, pcur,   \* parse thread: "take" / "free" / "deliver"
          pmsg,
          held,        \* history: buffers currently allocated (OneHolder)
          out          \* deliveries [id, prov]

vars == <<Dgrams, free, cells, nbuf, rpc, rbuf, next, queue, ppc, pcur, pmsg, held, out>>

Init == /\ Dgrams \in Seqs
        /\ free = <<>> /\ cells = <<>> /\ nbuf = 0 /\ rpc = "alloc" /\ rbuf = 0 /\ next = 1
        /\ queue = <<>> /\ ppc = "take" /\ pcur = [b |-> 0, n |-> 0] /\ pmsg = [ok |-> FALSE, id |-> 0, prov |-> {}]
        /\ held = {} /\ out = <<>>

\* ByteArrayPool.Alloc: pop, or make a new zeroed buffer
Alloc == /\ rpc = "alloc" /\ next <= Len(Dgrams)
         /\ IF free # <<>>
            THEN rbuf' = free[Len(free)] /\ free' = SubSeq(free, 1, Len(free) - 1) /\ UNCHANGED <<cells, nbuf>>
            ELSE nbuf < MaxBufs /\ rbuf' = nbuf + 1 /\ nbuf' = nbuf + 1 /\ cells' = Append(cells, [i \in 1..BufSize |-> 0]) /\ UNCHANGED free
         /\ held' = held \cup {rbuf'}
         /\ rpc' = "read"
         /\ UNCHANGED <<next, queue, ppc, pcur, pmsg, out>>

\* ReadFromUDP overwrites the first n cells only
Recv == /\ rpc = "read"
        /\ LET d == Dgrams[next] IN
           /\ cells' = [cells EXCEPT ![rbuf] = [i \in 1..BufSize |-> IF i <= d.size THEN d.id ELSE @[i]]]
           /\ queue' = Append(queue, [b |-> rbuf, n |-> d.size])
        /\ next' = next + 1 /\ rpc' = "alloc"
        /\ UNCHANGED <<free, nbuf, rbuf, ppc, pcur, pmsg, held, out>>

D(id) == Dgrams[CHOOSE i \in DOMAIN Dgrams : Dgrams[i].id = id]
\* decode what is visible: the header section says how long the body is; the body is taken from the cells that follow
Decode(b, n) ==
    LET d == D(cells[b][1])
        vis == IF Whole THEN BufSize ELSE n
    IN IF d.hdr > n THEN [ok |-> FALSE, id |-> d.id, prov |-> {}]                         \* header section incomplete
       ELSE IF d.hdr + d.decl > vis THEN [ok |-> FALSE, id |-> d.id, prov |-> {}]         \* not enough bytes for the declared body
       ELSE [ok |-> TRUE, id |-> d.id, prov |-> {cells[b][i] : i \in 1..(d.hdr + d.decl)}]

Take == /\ ppc = "take" /\ queue # <<>>
        /\ pcur' = Head(queue) /\ queue' = Tail(queue)
        /\ pmsg' = Decode(Head(queue).b, Head(queue).n)
        /\ ppc' = "free"
        /\ UNCHANGED <<free, cells, nbuf, rpc, rbuf, next, held, out>>
Free == /\ ppc = "free"
        /\ free' = Append(free, pcur.b) /\ held' = held \ {pcur.b}
        /\ ppc' = "deliver"
        /\ UNCHANGED <<cells, nbuf, rpc, rbuf, next, queue, pcur, pmsg, out>>
Deliver == /\ ppc = "deliver"
           /\ out' = IF pmsg.ok THEN Append(out, [id |-> pmsg.id, prov |-> pmsg.prov]) ELSE out
           /\ ppc' = "take"
           /\ UNCHANGED <<free, cells, nbuf, rpc, rbuf, next, queue, pcur, pmsg, held>>

Next == (Alloc \/ Recv \/ Take \/ Free \/ Deliver) /\ UNCHANGED Dgrams
Spec == Init /\ [][Next]_vars

---------------------------------------------------------------------------
(* C10 *)
\* what is delivered for a datagram is a function of that datagram's own bytes
Isolation == \A i \in DOMAIN out : out[i].prov \subseteq {out[i].id}
\* declared body longer than carried, or header section incomplete => discarded
Carried(d) == d.hdr <= d.size /\ d.hdr + d.decl <= d.size
Discard == \A i \in DOMAIN out : Carried(D(out[i].id))
\* every complete datagram is delivered, once, in order (no loss by the proxy)
DeliveredAll == (next > Len(Dgrams) /\ queue = <<>> /\ ppc = "take") =>
                   out = [i \in 1..Len(SelectSeq(Dgrams, Carried)) |-> [id |-> SelectSeq(Dgrams, Carried)[i].id, prov |-> {SelectSeq(Dgrams, Carried)[i].id}]]
\* the pool never has a buffer both free and in flight, never hands one out twice
OneHolder == /\ \A i \in DOMAIN free : free[i] \notin held
             /\ \A i, j \in DOMAIN free : i # j => free[i] # free[j]
             /\ (rpc = "read" => rbuf \in held)
=============================================================================
