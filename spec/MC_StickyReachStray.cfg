SPECIFICATION MCSpec
CONSTANTS
  Dialogs = {"d1", "d2"}
  Backs = {"b1", "b2", "b3"}
  BackSeq <- MCBackSeq
  MethodExcluded = FALSE
  PurgeEvictsLive = FALSE
  ExpiresIgnored = FALSE
  RejectUnpins = FALSE
  MaxOps = 8
  MaxTimeouts = 1
VIEW PropView
INVARIANTS Reach_StrayUnpins
