-------------------------- MODULE MC_TransTableSim --------------------------
(* simulation: histories of table operations for replay on the real ClientTransportMgr through the real proxy *)
EXTENDS MC_TransTable, Json, CSV, IOUtils
VARIABLE hist
mcvars == <<vars, hist>>
MCInit == Init /\ hist = <<>>
MCNext == /\ Next
          /\ hist' = Append(hist, [op |-> last'.op, c |-> last'.c, proto |-> last'.key[1], d |-> last'.key[2], t |-> last'.key[3],
                                   final |-> last'.final, n |-> s'.now - s.now])
MCSpec == MCInit /\ [][MCNext]_mcvars
EmitInv == Len(hist) = 14 => CSVWrite("%1$s", <<ToJson([hist |-> hist])>>, IOEnv.OUT)
=============================================================================
