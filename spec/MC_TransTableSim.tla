-------------------------- MODULE MC_TransTableSim --------------------------
(* Simulation: histories of table operations for replay on the real           *)
(* ClientTransportMgr THROUGH the real proxy (TCP listener, message loop).    *)
(* What can be made to happen from outside: a connection is dialled once      *)
(* (Acc) before it carries requests; tick sizes keep every comparison of the  *)
(* code at least 2 s away from its threshold (the driver shifts the table's   *)
(* clocks, real seconds keep passing).                                        *)
EXTENDS MC_TransTable, Json, CSV, IOUtils
SimTicks == {25, 70, 3650}
VARIABLES hist, accd
mcvars == <<vars, hist, accd>>
MCInit == Init /\ hist = <<>> /\ accd = {}
MCNext == /\ \/ \E c \in Conns \ accd : Acc(c) /\ accd' = accd \cup {c}
             \/ \E c \in accd, t \in Txs : Req(c, t) /\ UNCHANGED accd
             \/ \E d \in Dests, t \in Txs \cup {""}, f \in BOOLEAN : SendTcp(d, t, f) /\ UNCHANGED accd
             \/ \E d \in Dests, f \in BOOLEAN : SendUdp(d, f) /\ UNCHANGED accd
             \/ \E n \in Ticks : TickA(n) /\ UNCHANGED accd
          /\ hist' = Append(hist, [op |-> last'.op, c |-> last'.c, proto |-> last'.key[1], d |-> last'.key[2], t |-> last'.key[3],
                                   final |-> last'.final, n |-> s'.now - s.now])
MCSpec == MCInit /\ [][MCNext]_mcvars
EmitInv == Len(hist) = 14 => CSVWrite("%1$s", <<ToJson([hist |-> hist])>>, IOEnv.OUT)
=============================================================================
