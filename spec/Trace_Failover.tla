--------------------------- MODULE Trace_Failover ---------------------------
(* Trace validation for C20: every fault pattern emitted by TLC, on real     *)
(* FailOverClientTransport / TCPClientTransport / TCPBackend objects with    *)
(* scripted connection doubles and real loopback listeners (accepting,       *)
(* refusing, accepting-then-resetting).  Per send the driver reports the     *)
(* returned error, on which connection(s) the complete message was observed, *)
(* how many connections were dialled, how many writes hit the old primary,   *)
(* and the elapsed time.  The pre-state of each send is tracked from the     *)
(* pattern by the declarative rules; Demand is the verdict.                  *)
EXTENDS FailoverOps, TLC, Json, IOUtils
Trace == ndJsonDeserialize(IOEnv.TRACE_FILE)
VARIABLES l, s
tvars == <<l, s>>
Verdict(e) ==
    IF e.panic # "" THEN "P:C20:panic"
    ELSE IF e.elapsed_ms > 3000 THEN "P:C20:send-hangs"
    ELSE IF Len(e.on) > 1 THEN "P:C20:message-written-more-than-once"
    ELSE IF s.prim = "none" /\ e.prim_writes > 0 THEN "P:C20:forgotten-primary-tried-again"
    ELSE IF s.dest = "reset" /\ s.prim # "healthy" THEN ""              \* a write into a connection that is then reset may report either outcome
    ELSE LET on == IF e.on = <<>> THEN "none" ELSE e.on[1]
             r == [s |-> [s EXCEPT !.prim = IF @ = "failing" THEN "none" ELSE @], ok |-> e.ok, on |-> on]
         IN IF Demand(s, r) THEN ""
            ELSE IF s.prim = "healthy" THEN "P:C20:healthy-cached-connection-not-used"
            ELSE IF SecUsable(s) /\ ~e.ok THEN "P:C20:no-fallback-to-a-fresh-connection"
            ELSE IF SecUsable(s) /\ on = "none" THEN "P:C20:success-reported-but-message-not-written"
            ELSE IF SecUsable(s) THEN "P:C20:fallback-did-not-use-a-fresh-connection"
            ELSE IF e.ok THEN "P:C20:success-reported-although-nothing-could-be-written"
            ELSE "P:C20:message-written-although-error-reported"
NextState(e) ==
    LET on == IF e.on = <<>> THEN "none" ELSE e.on[1] IN
    [prim |-> IF s.prim = "failing" THEN "none" ELSE s.prim,
     conn |-> IF s.prim = "healthy" THEN s.conn ELSE IF on \in {"new", "old"} THEN "open" ELSE "none",
     dest |-> s.dest]
TraceInit == l = 1 /\ s = [prim |-> "none", conn |-> "none", dest |-> "absent"]
TraceNext ==
  /\ l <= Len(Trace) /\ l' = l + 1
  /\ LET e == Trace[l] IN
     IF e.ev = "reset" THEN s' = [prim |-> e.prim, conn |-> e.conn, dest |-> e.dest]
     ELSE /\ s' = NextState(e)
          /\ LET v == Verdict(e) IN
             IF v # "" THEN PrintT("FAIL|" \o ToString(l) \o "|" \o e.case \o "|" \o v \o "|" \o e.cls) ELSE TRUE
TraceSpec == TraceInit /\ [][TraceNext]_tvars
Consumed == (l = Len(Trace) + 1) => PrintT("CONSUMED|" \o ToString(Len(Trace)))
=============================================================================
