SPECIFICATION MCSpec
CONSTANTS
  Conns <- MCConns
  SentBy <- MCSentBy
  Txs <- MCTxs
  TxConn <- MCTxConn
  SharePerPeer = TRUE
  EqualSentBy = TRUE
VIEW PropView
INVARIANTS AffinityInv
