SPECIFICATION Spec
CONSTANT SLLocked = TRUE
INVARIANTS NoRace Confined Progress
