---------------------------- MODULE MC_Failover ----------------------------
(* The full product of the quantifier of C20: cached inbound {absent,        *)
(* healthy, failing} x reconnectable path {absent, fresh, stale failing      *)
(* once, refusing, accept-then-reset} x 1-3 messages, for client transports  *)
(* and (prim = none) for TCP backends.                                       *)
EXTENDS FailoverOps, TLC, Json, CSV, IOUtils
VARIABLES s, n, last, pat
vars == <<s, n, last, pat>>
Paths == {"absent", "fresh", "stale", "refuse", "reset"}
PathState(p) == CASE p = "absent" -> [conn |-> "none", dest |-> "absent"]
                  [] p = "fresh"  -> [conn |-> "none", dest |-> "accept"]
                  [] p = "stale"  -> [conn |-> "stale", dest |-> "accept"]
                  [] p = "refuse" -> [conn |-> "none", dest |-> "refuse"]
                  [] p = "reset"  -> [conn |-> "none", dest |-> "reset"]
\* part: a write that fails has first accepted a proper prefix of the message (a connection dying mid-write); what was
\* accepted there is lost - the retry on another connection must carry the COMPLETE message all the same
Init == /\ pat \in [prim : {"none", "healthy", "failing"}, path : Paths, msgs : 1..3, part : BOOLEAN]
        /\ pat.part => (pat.path = "stale" \/ pat.prim = "failing")
        /\ s = [prim |-> pat.prim, conn |-> PathState(pat.path).conn, dest |-> PathState(pat.path).dest]
        /\ n = 0 /\ last = [ok |-> TRUE, on |-> "init", pre |-> s]
Next == /\ n < pat.msgs
        /\ LET r == FailoverSend(s) IN s' = r.s /\ last' = [ok |-> r.ok, on |-> r.on, pre |-> s]
        /\ n' = n + 1 /\ UNCHANGED pat
Spec == Init /\ [][Next]_vars
DemandInv == n > 0 => Demand(last.pre, [s |-> s, ok |-> last.ok, on |-> last.on])
Emit == (n = 0) => CSVWrite("%1$s", <<ToJson(pat)>>, IOEnv.OUT)
Reach_Failover == ~(n > 0 /\ last.pre.prim = "failing" /\ last.ok /\ last.on = "new")
=============================================================================
