SPECIFICATION Spec
CONSTANTS
  RouteFirst = {"-", "own.addr", "own.alias", "own.noport", "miss.port", "miss.host", "other.listener", "hop1", "hop2.tcp", "hop3.tls", "hop4.name"}
  RouteRest = {"hop1", "hop2.tcp", "hop4.name", "own.addr", "own.alias", "own.noport", "miss.port"}
  MaxRoute = 4
  ViaLens = {1}
  RRLens = {0}
  ToClasses = {"none"}
  RuriClasses = {"lit", "foreign"}
  Keeps = {TRUE, FALSE}
  LPorts = {5060, 5070}
  Pools = {"two"}
  Learns = {"none"}
  MustRRs = {FALSE}
  Recvs = {TRUE}
  HdrOrders = {"std"}
  RportForms = {"none"}
  Kinds = {"req"}
  RespVias = {"own"}
  Statuses = {200}
INVARIANTS ReqOK RespOK
CONSTRAINT Emit
