-------------------------- MODULE Trace_TransTable --------------------------
(***************************************************************************)
(* Trace validation of the client-transport table (model conformance,      *)
(* attached to C12): one line per operation that was made to happen on the  *)
(* real proxy, with the projection of the real table read afterwards.  The  *)
(* same operation is applied to the model state with the operators of       *)
(* TransTableOps and the projections are compared.  A difference is a       *)
(* MODEL DEVIATION (WARN, "M:"): the table is mechanism, not one of the     *)
(* listed properties - C12 / C02 judge where the responses go.  After a     *)
(* deviation the rest of the case is skipped (the model state is no longer  *)
(* the code's).  A panic or a stalled loop is C12's business and reported   *)
(* as such.                                                                 *)
(***************************************************************************)
EXTENDS TransTableOps, Json, IOUtils
Trace == ndJsonDeserialize(IOEnv.TRACE_FILE)
VARIABLES l, s, lost
tvars == <<l, s, lost>>
Fresh == [tab |-> <<>>, now |-> 0, lastClean |-> 0, nobj |-> 0]
Range(f) == {f[i] : i \in DOMAIN f}

Apply(st, e) ==
    CASE e.op = "acc"  -> Accepted(st, e.d, e.c)
      [] e.op = "req"  -> Register(st, e.hop, e.t, e.c)
      [] e.op = "send" -> Send(st, e.proto, e.d, e.t, e.final).s
      [] e.op = "tick" -> Tick(st, e.n)

TraceInit == l = 1 /\ s = Fresh /\ lost = TRUE
TraceNext ==
  /\ l <= Len(Trace) /\ l' = l + 1
  /\ LET e == Trace[l] IN
     IF e.ev = "reset" THEN s' = Fresh /\ lost' = FALSE
     ELSE IF e.panic # "" THEN PrintT("FAIL|" \o ToString(l) \o "|" \o e.case \o "|P:C12:panic|" \o e.cls) /\ lost' = TRUE /\ s' = s
     ELSE IF e.stuck THEN PrintT("FAIL|" \o ToString(l) \o "|" \o e.case \o "|P:C12:message-loop-stalled|" \o e.cls) /\ lost' = TRUE /\ s' = s
     ELSE IF lost THEN UNCHANGED <<s, lost>>
     ELSE LET s2 == Apply(s, e) IN
          /\ s' = s2
          /\ IF Proj(s2) = Range(e.tab) THEN lost' = FALSE
             ELSE /\ lost' = TRUE
                  /\ PrintT("WARN|" \o ToString(l) \o "|" \o e.case \o "|M:transport-table-differs-from-the-model|" \o e.cls)
TraceSpec == TraceInit /\ [][TraceNext]_tvars
Consumed == (l = Len(Trace) + 1) => PrintT("CONSUMED|" \o ToString(Len(Trace)))
=============================================================================
