SPECIFICATION TraceSpec
INVARIANT Consumed
