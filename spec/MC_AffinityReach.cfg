SPECIFICATION MCSpec
CONSTANTS
  Conns <- MCConns
  SentBy <- MCSentBy
  Txs <- MCTxs
  TxConn <- MCTxConn
  SharePerPeer = FALSE
  EqualSentBy = TRUE
VIEW PropView
INVARIANTS Reach_Overlap
