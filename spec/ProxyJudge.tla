----------------------------- MODULE ProxyJudge -----------------------------
(***************************************************************************)
(* The declarative relations of properties C01, C02, C03, C06, C07, C13     *)
(* between what the proxy received (in), the environment (env) and what it  *)
(* sent (outs) in ONE loop iteration - written from the property texts.     *)
(* The same operators judge the operational model (MC_Proxy: leg M) and     *)
(* the real code (Trace_Proxy: leg T).  Each returns "" or a verdict.       *)
(*                                                                          *)
(* env = [ keep, names, static, resolv, rx, tohost,                         *)
(*         L      : [lid, proto, addr, port]   the receiving transport,     *)
(*         trans  : transports of the receiving proxy (listen entry),       *)
(*         all    : every transport of the service, lid -> record,          *)
(*         mustrr, recv, src : [ip, port], learned : host -> lid (BEFORE    *)
(*         this message), pool : set of backend addresses registered now ]  *)
(* out = [kind ("backend"/"sink"), addr, ip, port, proto, msg, cookie,      *)
(*        fresh]                                                            *)
(***************************************************************************)
EXTENDS ProxyOps, StaticOps

Supported(p) == p \in {"udp", "tcp", "UDP", "TCP", "Udp", "Tcp"}
Lower(p) == CASE p \in {"udp", "UDP", "Udp"} -> "udp" [] p \in {"tcp", "TCP", "Tcp"} -> "tcp" [] OTHER -> p

Resolve(env, h) == IF h \in DOMAIN env.resolv THEN env.resolv[h] ELSE ""
SameAddr(env, a, b) == a = b \/ (Resolve(env, a) # "" /\ Resolve(env, a) = Resolve(env, b))

\* C13: the first Route entry designates the receiving listener
IsOwnRoute(env, e) == ~e.bad /\ IsSip(e.uri) /\ UriPort(e.uri) = env.L.port /\ SameAddr(env, e.uri.host, env.L.addr)
OwnConsumed(env, m) == LET r == RouteStack(m) IN r # <<>> /\ IsOwnRoute(env, r[1])
RemainingRoute(env, m) == LET r == RouteStack(m) IN IF OwnConsumed(env, m) THEN Tail(r) ELSE r

\* C03 (3): the Request-URI matches a service name or designates the receiving listener
IsMine(env, m) ==
    LET u == m.ruri IN
    IF IsSip(u)
    THEN \/ (u.host = env.L.addr /\ UriPort(u) = env.L.port)
         \/ \E i \in DOMAIN env.names : LET n == env.names[i] IN
               IF n.hasat THEN (u.host = n.host /\ u.user = n.user) ELSE u.host = n.raw
         \/ env.rx.sip
    ELSE \/ \E i \in DOMAIN env.names : env.names[i].raw = u.raw
         \/ env.rx.abs

ToEntry(m) == IF HasCls(m.hdrs, "to") THEN m.hdrs[FirstPos(m.hdrs, "to")].ents[1] ELSE [bad |-> TRUE]
StaticAnswers(env, m) == IF ToEntry(m).bad \/ ~IsSip(ToEntry(m).uri) THEN {NoRoute} ELSE Admissible(env.static, env.tohost)

\* the admissible decisions, in the precedence of C03
Decisions(env, m) ==
    LET r1 == RemainingRoute(env, m) IN
    IF r1 # <<>> /\ ~r1[1].bad /\ IsSip(r1[1].uri)
    THEN {[kind |-> "hop", host |-> r1[1].uri.host, port |-> UriPort(r1[1].uri), proto |-> UriTransport(r1[1].uri)]}
    ELSE IF \E a \in StaticAnswers(env, m) : a.found
    THEN {[kind |-> "hop", host |-> a.host, port |-> a.port, proto |-> a.proto] : a \in StaticAnswers(env, m)}
    ELSE IF IsMine(env, m) THEN {[kind |-> "backend", host |-> "", port |-> 0, proto |-> ""]}
    ELSE {[kind |-> "drop", host |-> "", port |-> 0, proto |-> ""]}

OutMatches(env, d, o) ==
    CASE d.kind = "hop" -> /\ o.kind = "sink" /\ o.ip = Resolve(env, d.host) /\ o.port = d.port /\ o.proto = Lower(d.proto)
      [] d.kind = "backend" -> o.kind = "backend" /\ o.addr \in env.pool
      [] OTHER -> FALSE
Sendable(env, d) ==
    CASE d.kind = "hop" -> Supported(d.proto) /\ Resolve(env, d.host) # ""
      [] d.kind = "backend" -> env.pool # {}
      [] OTHER -> FALSE

JudgeC03(env, m, outs) ==
    IF Len(outs) > 1 THEN "P:C03:sent-to-more-than-one-destination"
    ELSE LET ds == Decisions(env, m) IN
         IF Len(outs) = 0
         THEN IF \A d \in ds : Sendable(env, d) THEN "P:C03:nothing-sent-although-a-destination-is-chosen" ELSE ""
         ELSE IF \E d \in ds : Sendable(env, d) /\ OutMatches(env, d, outs[1]) THEN ""
              ELSE "P:C03:sent-to-a-destination-other-than-the-one-chosen-by-precedence"

\* C13 - judged on whatever was sent (C03 judges where)
JudgeC13(env, m, outs) ==
    IF Len(outs) # 1 THEN ""
    ELSE LET exp == RouteExpect(RouteStack(m), OwnConsumed(env, m), env.keep)
             \* a request that falls through to a backend has used up its Route set
             got == RouteStack(outs[1].msg)
         IN IF RtSeqEq(got, exp) THEN ""
            ELSE IF Len(got) # Len(exp) THEN "P:C13:wrong-number-of-Route-entries-relayed"
            ELSE "P:C13:relayed-Route-entry-differs-from-the-received-one"

\* the sender's Via entry with received / rport taken out - C06 and C13 do not judge stamping (C07 does)
StripRecv(e) == [e EXCEPT !.params = SelectSeq(@, LAMBDA p : p[1] \notin {"received", "rport"}), !.rport = 0]
StripTop(s) == IF s = <<>> THEN s ELSE <<StripRecv(s[1])>> \o Tail(s)

\* C06: did the proxy have to insert itself, and as which listener
LearnNow(env, m) ==   \* the table as it stands when the decision is taken: this request teaches too
    LET vs == ViaStack(m)
        hs == {env.src.ip} \cup {vs[i].host : i \in {j \in DOMAIN vs : ~vs[j].bad}}
    IN [h \in DOMAIN env.learned \cup hs |-> IF h \in hs THEN env.L.lid ELSE env.learned[h]]
HopHostOf(env, m, o) ==  \* the host string the chosen next hop was named by
    LET ds == {d \in Decisions(env, m) : d.kind = "hop" /\ OutMatches(env, d, o)} IN
    IF ds = {} THEN "" ELSE (CHOOSE d \in ds : TRUE).host
TransOK(t, e) == OwnViaOK(e, t)
JudgeC06(env, m, outs) ==
    IF Len(outs) # 1 THEN ""
    ELSE LET o == outs[1]
             vin == ViaStack(m)
             vout == ViaStack(o.msg)
             rin == RRStack(m)
             rout == RRStack(o.msg)
             ln == LearnNow(env, m)
             hh == HopHostOf(env, m, o)
             insert == o.kind = "backend" \/ (o.kind = "sink" /\ hh \in DOMAIN ln)
             \* the listener that must be named: any transport of the backend's listen entry / the learnt one
             cands == IF o.kind = "backend" THEN Range(env.trans) ELSE IF hh \in DOMAIN ln THEN {env.all[ln[hh]]} ELSE {}
             wantrr == rin # <<>> \/ env.mustrr
         IN IF o.kind = "sink" /\ hh = ""              \* destination not explained (C03's business): only what holds for every pushed Via
            THEN IF Len(vout) = Len(vin) + 1 /\ ViaSeqEq(StripTop(Tail(vout)), StripTop(vin))
                 THEN (IF ~o.cookie THEN "P:C06:branch-without-RFC3261-cookie" ELSE IF ~o.fresh THEN "P:C06:branch-not-fresh" ELSE "")
                 ELSE ""
            ELSE IF ~insert
            THEN IF ~ViaSeqEq(StripTop(vout), StripTop(vin)) THEN "P:C06:Via-changed-although-next-hop-not-learned"
                 ELSE IF ~RtSeqEq(rout, rin) THEN "P:C06:Record-Route-changed-although-next-hop-not-learned"
                 ELSE ""
            ELSE IF Len(vout) # Len(vin) + 1 THEN "P:C06:not-exactly-one-Via-pushed"
            ELSE IF ~ViaSeqEq(StripTop(Tail(vout)), StripTop(vin)) THEN "P:C06:existing-Via-entries-not-kept-beneath-in-order"
            ELSE IF ~\E t \in cands : OwnViaOK(vout[1], t) THEN "P:C06:top-Via-does-not-name-the-listener"
            ELSE IF ~o.cookie THEN "P:C06:branch-without-RFC3261-cookie"
            ELSE IF ~o.fresh THEN "P:C06:branch-not-fresh"
            ELSE IF ~wantrr
            THEN IF RtSeqEq(rout, rin) THEN "" ELSE "P:C06:Record-Route-added-against-policy"
            ELSE IF Len(rout) # Len(rin) + 1 THEN "P:C06:not-exactly-one-Record-Route-entry-added"
            ELSE IF ~RtSeqEq(Tail(rout), rin) THEN "P:C06:own-Record-Route-not-ahead-of-existing-entries"
            ELSE IF ~\E t \in cands : OwnRROK(rout[1], t) /\ OwnViaOK(vout[1], t) THEN "P:C06:Record-Route-does-not-name-the-listener"
            ELSE ""

\* C07: received / rport on the sender's entry, nothing else touched
JudgeC07(env, m, outs) ==
    IF Len(outs) # 1 \/ ViaStack(m) = <<>> THEN ""
    ELSE LET vin == ViaStack(m)
             vo == ViaStack(outs[1].msg)
             vout == IF Len(vo) = Len(vin) + 1 THEN Tail(vo) ELSE vo      \* below the proxy's own entry, if it pushed one
             want == IF env.recv THEN Flat(StampTop(m.hdrs, env.src.ip, ToString(env.src.port)), "via") ELSE vin
         IN IF Len(vout) # Len(vin) THEN ""                               \* C06's business
            ELSE IF ViaSeqEq(vout, [i \in DOMAIN want |-> [want[i] EXCEPT !.rport = vout[i].rport]]) THEN ""
            ELSE IF ~ViaSeqEq(Tail(vout), Tail(want)) THEN "P:C07:another-Via-entry-was-touched"
            ELSE IF env.recv THEN "P:C07:received-rport-do-not-record-the-true-source"
            ELSE "P:C07:sender-Via-altered-although-received-support-is-off"

\* C01: everything the proxy does not own is untouched; exactly one truthful Content-Length
JudgeC01(m, outs) ==
    LET Bad(o) ==
          IF o.msg.kind = "garbled" THEN "P:C01:relayed-message-is-not-well-formed"
          ELSE IF o.msg.start # m.start THEN "P:C01:start-line-changed"
          ELSE IF Others(o.msg.hdrs) # Others(m.hdrs) THEN
                 (IF Len(Others(o.msg.hdrs)) # Len(Others(m.hdrs)) THEN "P:C01:header-added-or-dropped" ELSE "P:C01:header-rewritten-or-reordered")
          ELSE IF o.msg.body # m.body \/ o.msg.blen # m.blen THEN "P:C01:body-changed"
          ELSE IF Len(ClenLines(o.msg)) # 1 THEN "P:C01:not-exactly-one-Content-Length"
          ELSE IF ClenLines(o.msg)[1].val # ToString(o.msg.blen) THEN "P:C01:Content-Length-is-not-the-number-of-body-bytes"
          ELSE ""
    IN IF \E i \in DOMAIN outs : Bad(outs[i]) # "" THEN Bad(outs[CHOOSE i \in DOMAIN outs : Bad(outs[i]) # ""]) ELSE ""

\* C02: a response pops one Via entry and goes where the next one says
JudgeC02(env, m, outs) ==
    LET s == ViaStack(m)
        relay == Len(s) >= 2 /\ ~s[1].bad /\ ~s[2].bad
        hop == IF relay THEN RespHop(s[2]) ELSE [host |-> "", port |-> 0, proto |-> ""]
        can == relay /\ Supported(hop.proto) /\ Resolve(env, hop.host) # ""
    IN IF Len(outs) > 1 THEN "P:C02:response-sent-more-than-once"
       ELSE IF ~can THEN (IF Len(outs) = 0 THEN "" ELSE "P:C02:response-relayed-although-no-usable-Via-remains")
       ELSE IF Len(outs) = 0 THEN "P:C02:response-not-relayed"
       ELSE LET o == outs[1] IN
            IF ~(o.kind \in {"sink", "conn"} /\ o.ip = Resolve(env, hop.host) /\ o.port = hop.port /\ o.proto = Lower(hop.proto))
            THEN "P:C02:response-sent-to-the-wrong-hop"
            ELSE IF ~ViaSeqEq(ViaStack(o.msg), Tail(s)) THEN "P:C02:remaining-Via-entries-not-intact"
            ELSE ""

\* C17: the metamorphic relation between what the proxy does for a message and for its respelled / re-laid-out twin.
\* Nothing is compared with an expectation: only the twins with each other.
CanonOthers(hs) == LET o == SelectSeq(hs, LAMBDA h : h.cls \notin Managed) IN [i \in DOMAIN o |-> <<o[i].cn, o[i].val>>]
BlankBranch(e) == [e EXCEPT !.params = [i \in DOMAIN @ |-> IF @[i][1] = "branch" THEN <<"branch", "">> ELSE @[i]]]
\* the proxy's own (fresh) branch differs between the twins by design
OutVia(m, o) == LET v == ViaStack(o.msg) IN
                IF Len(v) = Len(ViaStack(m)) + 1 THEN <<BlankBranch(v[1])>> \o Tail(v) ELSE v
JudgeC17(ma, outsa, mb, outsb) ==
    IF Len(outsa) # Len(outsb) THEN "P:C17:twins-relayed-a-different-number-of-times"
    ELSE IF \E i \in DOMAIN outsa : outsa[i].kind # outsb[i].kind \/ outsa[i].addr # outsb[i].addr \/ outsa[i].ip # outsb[i].ip
                                     \/ outsa[i].port # outsb[i].port \/ outsa[i].proto # outsb[i].proto
         THEN "P:C17:twins-went-to-different-destinations"
    ELSE IF \E i \in DOMAIN outsa : ~ViaSeqEq(OutVia(ma, outsa[i]), OutVia(mb, outsb[i])) THEN "P:C17:twins-differ-in-the-relayed-Via-stack"
    ELSE IF \E i \in DOMAIN outsa : ~RtSeqEq(RouteStack(outsa[i].msg), RouteStack(outsb[i].msg)) THEN "P:C17:twins-differ-in-the-relayed-Route-stack"
    ELSE IF \E i \in DOMAIN outsa : ~RtSeqEq(RRStack(outsa[i].msg), RRStack(outsb[i].msg)) THEN "P:C17:twins-differ-in-the-relayed-Record-Route-stack"
    ELSE IF \E i \in DOMAIN outsa : CanonOthers(outsa[i].msg.hdrs) # CanonOthers(outsb[i].msg.hdrs) THEN "P:C17:twins-differ-in-the-remaining-headers"
    ELSE IF \E i \in DOMAIN outsa : outsa[i].msg.body # outsb[i].msg.body \/ outsa[i].msg.start # outsb[i].msg.start THEN "P:C17:twins-differ-in-start-line-or-body"
    ELSE IF \E i \in DOMAIN outsa : Len(ClenLines(outsa[i].msg)) # Len(ClenLines(outsb[i].msg)) THEN "P:C17:twins-differ-in-Content-Length-fields"
    ELSE ""
=============================================================================
