SPECIFICATION Spec
CONSTANTS
  RouteFirst = {"-", "hop1", "hop2.tcp", "own.addr"}
  RouteRest = {"hop1"}
  MaxRoute = 2
  ViaLens = {1, 2}
  RRLens = {0, 1}
  ToClasses = {"exact", "wild", "none"}
  RuriClasses = {"lit", "urn", "tel", "userhost", "listener"}
  Keeps = {TRUE, FALSE}
  LPorts = {5060}
  Pools = {"two"}
  Learns = {"none", "hop.p1"}
  MustRRs = {TRUE, FALSE}
  Recvs = {TRUE}
  HdrOrders = {"std", "from1st", "mf1st", "nofrommf", "viaLast", "rr1st", "clenmid"}
  RportForms = {"none"}
  Kinds = {"req"}
  RespVias = {"own"}
  Statuses = {200}
INVARIANTS ReqOK RespOK
CONSTRAINT Emit
