SPECIFICATION Spec
CONSTANTS
  RouteFirst = {"-", "own.addr", "miss.port", "hop1"}
  RouteRest = {"hop1", "hop2.tcp", "hop3.tls"}
  MaxRoute = 2
  ViaLens = {1}
  RRLens = {0}
  ToClasses = {"exact", "default", "none"}
  RuriClasses = {"userhost", "userhost2", "userhost.miss", "hostafter", "userhost.first", "regex"}
  Keeps = {TRUE, FALSE}
  LPorts = {5060}
  Pools = {"empty", "two"}
  Learns = {"none"}
  MustRRs = {FALSE}
  Recvs = {TRUE}
  HdrOrders = {"std"}
  RportForms = {"none"}
  Kinds = {"req"}
  RespVias = {"own"}
  Statuses = {200}
INVARIANTS ReqOK RespOK
CONSTRAINT Emit
