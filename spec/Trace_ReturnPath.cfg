SPECIFICATION TraceSpec
INVARIANT Consumed
