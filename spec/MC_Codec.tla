------------------------------ MODULE MC_Codec ------------------------------
(***************************************************************************)
(* The bounded grammar of the typed header values the proxy decodes (C14).  *)
(* TLC ENUMERATES the grammar - every AST is one initial state - checks the *)
(* spec-internal laws of the normalisation, and emits the ASTs; the Go      *)
(* concretiser renders each AST with seeded token choices, pushes it        *)
(* through the real decoders / encoders, and Trace_Codec judges             *)
(*   alpha(String(Parse(text))) = Norm(alpha(text))   and the accessors.    *)
(* (TLC's contribution to the DESIGN is small here: the codec has no        *)
(* temporal content; the evidence says so.)                                 *)
(***************************************************************************)
EXTENDS ProxyOps, Json, CSV, IOUtils
CONSTANTS MaxUP, MaxHP, MaxVia, MaxVP

RECURSIVE SeqsUpTo(_, _)
SeqsUpTo(S, n) == IF n = 0 THEN {<<>>} ELSE SeqsUpTo(S, n - 1) \cup {Append(q, x) : q \in {p \in SeqsUpTo(S, n - 1) : Len(p) = n - 1}, x \in S}

UParamKinds == {"valued", "valueless", "lr", "pct"}
HParamKinds == {"tag", "valued", "valueless"}
AddrASTs ==
    [ kind : {"addr"}, form : {"nameaddr", "bare"}, disp : {"none", "token", "quoted", "quotedpct"},
      scheme : {"sip", "sips", "tel", "urn"}, user : {"none", "user", "userpass", "semi", "qmark"}, host : {"ipv4", "name", "ipv6"}, port : {0, 5070},
      uparams : SeqsUpTo(UParamKinds, MaxUP), uhdrs : SeqsUpTo({"valued", "empty"}, 2), hparams : SeqsUpTo(HParamKinds, MaxHP) ]
\* what the grammar allows: a bare addr-spec has no display name and must not contain ';' or '?'; tel/urn have no user/host/port
WellFormedAddr(a) ==
    /\ (a.form = "bare") => (a.disp = "none" /\ a.uparams = <<>> /\ a.uhdrs = <<>>)
    /\ (a.scheme \in {"tel", "urn"}) => (a.user = "none" /\ a.host = "name" /\ a.port = 0 /\ a.uhdrs = <<>>)
    /\ Cardinality({i \in DOMAIN a.hparams : a.hparams[i] = "tag"}) <= 1
    /\ Cardinality({i \in DOMAIN a.uparams : a.uparams[i] = "lr"}) <= 1
ViaParamKinds == {"branch", "received", "rport", "rportval", "other", "flag"}
ViaEntASTs == [proto : {"UDP", "TCP", "TLS", "WS"}, port : {0, 5070}, params : SeqsUpTo(ViaParamKinds, MaxVP)]
WellFormedViaEnt(e) == \A k \in {"branch", "received"} : Cardinality({i \in DOMAIN e.params : e.params[i] = k}) <= 1
                       /\ Cardinality({i \in DOMAIN e.params : e.params[i] \in {"rport", "rportval"}}) <= 1

VARIABLE ast
Init == \/ ast \in {a \in AddrASTs : WellFormedAddr(a)}
        \/ \E n \in 1..MaxVia : ast \in [kind : {"via"}, ents : [1..n -> {e \in ViaEntASTs : WellFormedViaEnt(e)}]]
Next == UNCHANGED ast
Spec == Init /\ [][Next]_ast

\* spec-internal laws of the one documented normalisation (explicit default port on Via entries)
NormVia(e) == [e EXCEPT !.port = ViaPort(e)]
Sample(e) == [proto |-> e.proto, host |-> "h", port |-> e.port, rport |-> 0, params |-> <<>>, disp |-> "", uri |-> [scheme |-> ""], hparams |-> <<>>, bad |-> FALSE]
Laws == ast.kind = "via" => \A i \in DOMAIN ast.ents : LET e == Sample(ast.ents[i]) IN NormVia(NormVia(e)) = NormVia(e) /\ ViaEq(e, NormVia(e))
Emit == CSVWrite("%1$s", <<ToJson(ast)>>, IOEnv.OUT)
=============================================================================
