------------------------------ MODULE MC_Pool ------------------------------
(* Bounded instances of Pool:                                               *)
(*   Seq  - every add/remove/dispatch sequence up to MaxOps (dispatch       *)
(*          atomic: nothing interleaves in sequential use); checks Window,  *)
(*          Balance, Member; with hist kept in the state it also emits      *)
(*          every behaviour as a JSON line for replay on the real code.     *)
(*   Conc - dispatcher threads taking the three critical sections of Send   *)
(*          one at a time, racing with membership changes.                  *)
EXTENDS Pool, TLC, Json, CSV, IOUtils

CONSTANTS MaxOps, MaxDisp, MaxChg

VARIABLES n,      \* operations so far (Seq) / dispatches started (Conc)
          m,      \* membership changes so far (Conc)
          hist    \* input history (never outputs)

mcvars == <<vars, n, m, hist>>

SeqDisp == LET r == SeqDispatch(list, idx) IN
           /\ idx' = r.idx
           /\ since' = IF r.ok THEN Append(since, r.tgt) ELSE since
           /\ res' = [t \in Threads |-> r.tgt]
           /\ UNCHANGED <<list, pc, loc, deliv>>

SeqInit == Init /\ n = 0 /\ m = 0 /\ hist = <<>>

SeqNext == /\ n < MaxOps
           /\ n' = n + 1
           /\ UNCHANGED m
           /\ \/ \E a \in Addrs : Add(a)    /\ hist' = Append(hist, [op |-> "add",  a |-> a])
              \/ \E a \in Addrs : Remove(a) /\ hist' = Append(hist, [op |-> "rm",   a |-> a])
              \/ SeqDisp                    /\ hist' = Append(hist, [op |-> "disp", a |-> ""])

SeqSpec == SeqInit /\ [][SeqNext]_mcvars

\* property view: the history of inputs is irrelevant to the properties
SeqView == <<list, idx, since, n>>

\* sequential EmptyDrop: an empty pool yields "err" and nothing moves
SeqEmptyDrop == [][(list = <<>> /\ UNCHANGED list /\ n' = n + 1) => (res'["t1"] = "err" /\ idx' = idx /\ since' = since)]_mcvars
SeqMemberNow == (res["t1"] \notin {"none", "err"}) => TRUE

\* emission of every complete behaviour (leg R); used as CONSTRAINT so that it runs once per distinct state
Emit == (n = MaxOps) => CSVWrite("%1$s", <<ToJson(hist)>>, IOEnv.OUT)

---------------------------------------------------------------------------
ConcInit == Init /\ n = 0 /\ m = 0 /\ hist = <<>>

ConcNext == /\ UNCHANGED hist
            /\ \/ /\ m < MaxChg /\ m' = m + 1 /\ UNCHANGED n
                  /\ \E a \in Addrs : Add(a) \/ Remove(a)
               \/ /\ n < MaxDisp /\ n' = n + 1 /\ UNCHANGED m
                  /\ \E t \in Threads : TNext(t)
               \/ /\ UNCHANGED <<n, m>>
                  /\ \E t \in Threads : TCnt(t) \/ TGet(t) \/ TSend(t)

ConcSpec == ConcInit /\ [][ConcNext]_mcvars
ConcView == <<list, idx, pc, loc, res, n, m>>
\* liveness (no state constraint hides a cycle: the counters bound the behaviour): a dispatch that has started finishes
ConcFair == ConcSpec /\ \A t \in Threads : WF_mcvars(UNCHANGED hist /\ UNCHANGED <<n, m>> /\ (TCnt(t) \/ TGet(t) \/ TSend(t)))
Completes == \A t \in Threads : (pc[t] # "idle") ~> (pc[t] = "idle")

\* Reachability witnesses (anti-vacuity): TLC must *violate* these.
Reach_RaceEmpty == ~(\E t \in Threads : pc[t] = "haveCnt" /\ list = <<>>)
Reach_StaleIdx  == ~(\E t \in Threads : pc[t] = "haveCnt" /\ list # <<>> /\ loc[t].i >= Len(list))
=============================================================================
