SPECIFICATION TraceSpec
INVARIANT Consumed
