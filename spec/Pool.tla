------------------------------- MODULE Pool -------------------------------
(***************************************************************************)
(* The round-robin pool of backends (backend.go, RoundRobinBackend).       *)
(*                                                                         *)
(* Operational part: one action per critical section of the code - every   *)
(* one of them holds the pool mutex, so each is atomic; a dispatch         *)
(* (RoundRobinBackend.Send) is NOT atomic: it is getNextBackendIndex,      *)
(* getBackendCount, getBackend (repeated while the list is empty) and then *)
(* the chosen backend's own Send outside the lock.  Membership changes may *)
(* interleave between those steps - that is the race C05 quantifies over.  *)
(*                                                                         *)
(* Declarative part (property C05, written from the property text and      *)
(* independent of the actions): Window, Balance, Member, EmptyDrop,        *)
(* MemberAtLin, DeliveredIsChosen.                                         *)
(***************************************************************************)
EXTENDS PoolOps

CONSTANTS Addrs,      \* backend addresses
          Threads     \* dispatcher threads

VARIABLES list,       \* rb.backends : the rotation, in registration order
          idx,        \* rb.index
          pc,         \* pc[t] \in {"idle","haveIdx","haveCnt","got"}
          loc,        \* loc[t] = [i, n, tgt]  locals of Send in thread t
          since,      \* history: targets chosen since the last membership change
          res,        \* history: res[t] = outcome of t's last finished dispatch ("none", "err", or an address)
          deliv       \* history: deliveries <<thread, address>> in order

vars == <<list, idx, pc, loc, since, res, deliv>>


---------------------------------------------------------------------------
(* Pure versions of the critical sections - shared with the trace spec.    *)


---------------------------------------------------------------------------
Init == /\ list = <<>> /\ idx = 0
        /\ pc = [t \in Threads |-> "idle"]
        /\ loc = [t \in Threads |-> [i |-> 0, n |-> 0, tgt |-> "none"]]
        /\ since = <<>>
        /\ res = [t \in Threads |-> "none"]
        /\ deliv = <<>>

Add(a) == /\ a \notin Range(list)                       \* the property's domain: never add a present address
          /\ list' = AddOp(list, a)
          /\ since' = <<>>
          /\ UNCHANGED <<idx, pc, loc, res, deliv>>

Remove(a) == /\ a \in Range(list)
             /\ list' = RemoveOp(list, a)
             /\ since' = <<>>
             /\ UNCHANGED <<idx, pc, loc, res, deliv>>

\* getNextBackendIndex (backend.go:330-339)
TNext(t) == /\ pc[t] = "idle"
            /\ IF list = <<>>
               THEN /\ res' = [res EXCEPT ![t] = "err"]
                    /\ UNCHANGED <<idx, pc, loc>>
               ELSE /\ idx' = NextIdx(idx, list)
                    /\ loc' = [loc EXCEPT ![t] = [i |-> idx', n |-> 0, tgt |-> "none"]]
                    /\ pc' = [pc EXCEPT ![t] = "haveIdx"]
                    /\ res' = [res EXCEPT ![t] = "none"]
            /\ UNCHANGED <<list, since, deliv>>

\* getBackendCount (backend.go:351-356)
TCnt(t) == /\ pc[t] = "haveIdx"
           /\ IF Len(list) = 0
              THEN /\ pc' = [pc EXCEPT ![t] = "idle"]
                   /\ res' = [res EXCEPT ![t] = "err"]
                   /\ UNCHANGED loc
              ELSE /\ loc' = [loc EXCEPT ![t].n = Len(list)]
                   /\ pc' = [pc EXCEPT ![t] = "haveCnt"]
                   /\ UNCHANGED res
           /\ UNCHANGED <<list, idx, since, deliv>>

\* getBackend inside the for loop of Send (backend.go:306-312, 341-349)
TGet(t) == /\ pc[t] = "haveCnt"
           /\ IF Len(list) = 0
              THEN \* error: index++, n--, retry or give up
                   IF loc[t].n = 1
                   THEN /\ pc' = [pc EXCEPT ![t] = "idle"]
                        /\ res' = [res EXCEPT ![t] = "err"]
                        /\ UNCHANGED <<loc, since>>
                   ELSE /\ loc' = [loc EXCEPT ![t].i = @ + 1, ![t].n = @ - 1]
                        /\ UNCHANGED <<pc, res, since>>
              ELSE /\ loc' = [loc EXCEPT ![t].tgt = GetAt(list, loc[t].i)]
                   /\ pc' = [pc EXCEPT ![t] = "got"]
                   /\ since' = Append(since, GetAt(list, loc[t].i))
                   /\ UNCHANGED res
           /\ UNCHANGED <<list, idx, deliv>>

\* backend.Send(msg) - outside the pool lock
TSend(t) == /\ pc[t] = "got"
            /\ deliv' = Append(deliv, <<t, loc[t].tgt>>)
            /\ res' = [res EXCEPT ![t] = loc[t].tgt]
            /\ pc' = [pc EXCEPT ![t] = "idle"]
            /\ UNCHANGED <<list, idx, loc, since>>

Next == \/ \E a \in Addrs : Add(a) \/ Remove(a)
        \/ \E t \in Threads : TNext(t) \/ TCnt(t) \/ TGet(t) \/ TSend(t)

Spec == Init /\ [][Next]_vars

---------------------------------------------------------------------------
(* Structural invariants of the operational model.                         *)
TypeOK == /\ NoDup(list)
          /\ idx \in Nat                            \* idx may exceed Len(list)-1 after removals; the next % repairs it

---------------------------------------------------------------------------
(* Declarative properties (C05).                                           *)

\* between two membership changes any k consecutive dispatches over k backends are pairwise distinct
Window == WindowOf(since, Len(list))

\* after N dispatches every backend has received floor(N/k) or ceil(N/k)
Balance == BalanceOf(since, Range(list))

\* a dispatch always goes to a backend registered at that moment
Member == \A i \in DOMAIN since : since[i] \in Range(list)

\* linearization form, valid under races: the address chosen by getBackend is registered in that very state
MemberAtLin == [][\A t \in Threads : (pc[t] = "haveCnt" /\ pc'[t] = "got") => loc'[t].tgt \in Range(list)]_vars

\* what is delivered is what was chosen, once
DeliveredIsChosen == [][\A t \in Threads : (pc[t] = "got" /\ pc'[t] = "idle") =>
                          /\ Len(deliv') = Len(deliv) + 1
                          /\ deliv'[Len(deliv')] = <<t, loc[t].tgt>>]_vars

\* with no backend registered the dispatch errs and changes nothing
EmptyDrop == [][\A t \in Threads : (pc[t] = "idle" /\ list = <<>> /\ res'[t] # res[t]) =>
                   (res'[t] = "err" /\ UNCHANGED <<list, idx, deliv>>)]_vars

=============================================================================
