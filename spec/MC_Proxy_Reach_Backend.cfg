SPECIFICATION Spec
CONSTANTS
  RouteFirst = {"-", "own.addr", "own.alias", "own.noport", "miss.port", "miss.host", "other.listener", "hop1", "hop2.tcp", "hop3.tls", "hop4.name"}
  RouteRest = {"hop1", "hop2.tcp", "hop3.tls"}
  MaxRoute = 2
  ViaLens = {1}
  RRLens = {0}
  ToClasses = {"exact", "wild", "default", "none", "ext", "pre"}
  RuriClasses = {"lit", "userhost", "regex", "urn", "tel", "listener", "listener.wrongport", "foreign"}
  Keeps = {TRUE, FALSE}
  LPorts = {5060, 5070}
  Pools = {"empty", "two"}
  Learns = {"none", "hop.p1", "hop.p1real"}
  MustRRs = {FALSE}
  Recvs = {TRUE}
  HdrOrders = {"std"}
  RportForms = {"none"}
  Kinds = {"req"}
  RespVias = {"own"}
  Statuses = {200}
INVARIANTS Reach_Backend
