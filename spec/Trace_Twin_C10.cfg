SPECIFICATION TraceSpec
CONSTANT Prop = "C10"
INVARIANT Consumed
