SPECIFICATION Spec
CONSTANTS
  RouteFirst = {"-", "hop1", "hop2.tcp"}
  RouteRest = {"hop1"}
  MaxRoute = 1
  ViaLens = {1, 2, 3}
  RRLens = {0}
  ToClasses = {"exact", "none"}
  RuriClasses = {"lit", "foreign"}
  Keeps = {FALSE}
  LPorts = {5060}
  Pools = {"two"}
  Learns = {"none", "hop.p1"}
  MustRRs = {TRUE, FALSE}
  Recvs = {TRUE, FALSE}
  HdrOrders = {"std", "viaLast"}
  RportForms = {"none", "empty", "spoof", "spoof2", "spoof3", "noport"}
  Kinds = {"req"}
  RespVias = {"own"}
  Statuses = {200}
INVARIANTS ReqOK RespOK
CONSTRAINT Emit
