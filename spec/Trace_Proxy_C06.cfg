SPECIFICATION TraceSpec
CONSTANT Focus = "C06"
INVARIANT Consumed
