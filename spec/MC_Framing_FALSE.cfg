SPECIFICATION Spec
CONSTANTS
  W = 4
  CopyFirst = FALSE
  MaxCuts = 2
  Streams <- MCStreams
INVARIANTS SegInd
