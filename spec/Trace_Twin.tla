------------------------------ MODULE Trace_Twin ------------------------------
(* Trace validation for C17: one line per pair of twins run on two identical *)
(* proxies; the verdict is the metamorphic relation JudgeC17 only.           *)
EXTENDS ProxyJudge, Json, IOUtils
CONSTANT Prop      \* "C17" (twins: respelled / re-laid-out copies on two identical proxies), or "C10" (the same datagram processed again on one proxy)
Trace == ndJsonDeserialize(IOEnv.TRACE_FILE)
VARIABLE l
Verdict(e) ==
    IF e.panic # "" THEN "P:C17:panic"
    ELSE IF e.stuck THEN "P:C17:message-loop-stalled"
    ELSE IF e.a.parse # "" /\ e.b.parse # "" THEN ""                    \* neither twin was accepted: no relay to compare
    ELSE IF e.a.parse # e.b.parse THEN "P:C17:one-twin-is-rejected-by-the-decoder-the-other-is-not"
    ELSE LET v == JudgeC17(e.a.inmsg, e.a.outs, e.b.inmsg, e.b.outs) IN
         IF v = "" \/ Prop = "C17" THEN v
         ELSE "P:" \o Prop \o ":the-same-datagram-is-relayed-differently-after-earlier-datagrams (" \o v \o ")"
TraceInit == l = 1
TraceNext == /\ l <= Len(Trace) /\ l' = l + 1
             /\ LET e == Trace[l]  v == Verdict(e) IN
                  IF v # "" THEN PrintT("FAIL|" \o ToString(l) \o "|" \o e.case \o "|" \o v \o "|" \o e.cls) ELSE TRUE
TraceSpec == TraceInit /\ [][TraceNext]_l
Consumed == (l = Len(Trace) + 1) => PrintT("CONSUMED|" \o ToString(Len(Trace)))
=============================================================================
