SPECIFICATION MCSpec
CONSTANTS
  Txs = {"t1", "t2", "t3"}
  Recv = TRUE
INVARIANTS ReturnPath EmitInv
