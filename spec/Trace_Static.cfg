SPECIFICATION TraceSpec
INVARIANT Consumed
