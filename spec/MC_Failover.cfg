SPECIFICATION Spec
INVARIANTS DemandInv
CONSTRAINT Emit
