--------------------------- MODULE MC_ReturnPath ---------------------------
EXTENDS ReturnPath, Json, CSV, IOUtils
VARIABLE hist
mcvars == <<vars, hist>>
MCInit == Init /\ hist = <<>>
MCNext == \E t \in Txs :
            \/ Request(t) /\ hist' = Append(hist, [op |-> "req", t |-> t])
            \/ Respond(t, TRUE) /\ hist' = Append(hist, [op |-> "final", t |-> t])
            \/ Respond(t, FALSE) /\ Len(SelectSeq(hist, LAMBDA h : h.t = t /\ h.op = "prov")) < 2 /\ hist' = Append(hist, [op |-> "prov", t |-> t])
MCSpec == MCInit /\ [][MCNext]_mcvars
Done == \A t \in Txs : st[t] = "answered"
EmitInv == Done => CSVWrite("%1$s", <<ToJson([hist |-> hist, shape |-> shape])>>, IOEnv.OUT)
=============================================================================
