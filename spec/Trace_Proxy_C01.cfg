SPECIFICATION TraceSpec
CONSTANT Focus = "C01"
INVARIANT Consumed
