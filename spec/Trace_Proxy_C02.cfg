SPECIFICATION TraceSpec
CONSTANT Focus = "C02"
INVARIANT Consumed
