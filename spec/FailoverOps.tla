---------------------------- MODULE FailoverOps ----------------------------
(***************************************************************************)
(* Sending over connections that may fail (C20) - pure operators.           *)
(*                                                                          *)
(* Operational: FailOverClientTransport.Send (transport.go:108-120) over a  *)
(* cached inbound connection (primary: not reconnectable) and the           *)
(* reconnectable TCPClientTransport of the destination (secondary), whose   *)
(* Send is a two-iteration loop of dial-if-needed / write / close-and-      *)
(* forget (336-374); TCPBackend.Send (backend.go:190-231) is the same loop  *)
(* without a primary.                                                       *)
(*                                                                          *)
(* State s = [prim, conn, dest]                                             *)
(*   prim : "none" | "healthy" | "failing"   the cached inbound connection  *)
(*   conn : "none" | "open" | "stale"        the secondary's connection:    *)
(*          open = established and working, stale = established but its     *)
(*          next write fails                                                *)
(*   dest : "absent" (no secondary at all) | "accept" | "refuse" | "reset"  *)
(* Result r = [s, ok, on] : new state, reported success, and the connection *)
(*   that received the complete message: "prim", "old" (the connection the  *)
(*   secondary already had), "new" (a connection dialled by this send),     *)
(*   "none", or "unknown" (written into a connection that is being reset).  *)
(***************************************************************************)
EXTENDS Integers, Sequences, FiniteSets

\* one iteration of the reconnect loop: returns [conn, done, ok, on, err]
Attempt(conn, dest) ==
    IF conn = "none"
    THEN CASE dest = "refuse" -> [conn |-> "none", done |-> TRUE,  ok |-> FALSE, on |-> "none"]           \* dial error: return at once
           [] dest = "reset"  -> [conn |-> "none", done |-> TRUE,  ok |-> TRUE,  on |-> "unknown"]        \* accepted, written, then reset
           [] OTHER           -> [conn |-> "open", done |-> TRUE,  ok |-> TRUE,  on |-> "new"]
    ELSE IF conn = "stale" THEN [conn |-> "none", done |-> FALSE, ok |-> FALSE, on |-> "none"]            \* write fails: close, forget, next iteration
    ELSE [conn |-> "open", done |-> TRUE, ok |-> TRUE, on |-> "old"]

\* TCPClientTransport.Send / TCPBackend.Send: at most two iterations
ReconnSend(conn, dest) ==
    LET a1 == Attempt(conn, dest) IN
    IF a1.done THEN a1
    ELSE LET a2 == Attempt(a1.conn, dest) IN
         IF a2.done THEN a2 ELSE [conn |-> a2.conn, done |-> TRUE, ok |-> FALSE, on |-> "none"]

\* FailOverClientTransport.Send
FailoverSend(s) ==
    IF s.prim = "healthy" THEN [s |-> s, ok |-> TRUE, on |-> "prim"]
    ELSE LET s1 == [s EXCEPT !.prim = "none"] IN                                   \* a failing primary is forgotten
         IF s.dest = "absent" THEN [s |-> s1, ok |-> FALSE, on |-> "none"]
         ELSE LET r == ReconnSend(s.conn, s.dest) IN [s |-> [s1 EXCEPT !.conn = r.conn], ok |-> r.ok, on |-> r.on]

---------------------------------------------------------------------------
(* Declarative (property text).                                             *)
SecUsable(s) == s.dest = "accept"
\* what one send must achieve in state s
Demand(s, r) ==
    /\ (s.prim = "healthy") => (r.ok /\ r.on = "prim")                                  \* straight to the working path
    /\ (s.prim # "healthy" /\ SecUsable(s)) => (r.ok /\ r.on \in {"old", "new"})        \* Fallback: written exactly once on a working connection
    /\ (s.prim # "healthy" /\ SecUsable(s) /\ s.conn # "open") => r.on = "new"          \* ... on a FRESH connection when the cached one was unusable
    /\ (s.prim # "healthy" /\ s.dest \in {"absent", "refuse"}) => (~r.ok /\ r.on = "none")   \* an error, not a hang, nothing written
    /\ r.ok => r.on # "none"                                                            \* Truthful
    /\ r.s.prim # "failing"                                                             \* Straight: a failed primary is never tried again
=============================================================================
