------------------------------- MODULE Framing -------------------------------
(***************************************************************************)
(* TCP framing (C11): message.go ParseMessage / readLine / skipWhiteSpace   *)
(* over a bufio.Reader, at the level at which the defect class lives: a     *)
(* reader with a fixed WINDOW of W cells whose ReadLine returns a slice     *)
(* that ALIASES the window (plus isPrefix when the line does not fit), a    *)
(* fill step that slides and overwrites the window, and readLine's steps in *)
(* the order the code takes them.                                           *)
(*                                                                          *)
(* Symbols: 0 is the line end; 1..9 ordinary characters; 10+k is "the       *)
(* Content-Length header with value k" (a line consisting of that single    *)
(* symbol).  A stream is cut into chunks (the segmentation); one Read of    *)
(* the underlying connection returns at most the rest of the current chunk. *)
(*                                                                          *)
(* CopyFirst = TRUE is the repaired readLine (the first fragment is copied  *)
(* before the next read); FALSE is the pinned order (message.go:112-130):   *)
(* the fragment stays an alias of the window while the window is refilled.  *)
(*                                                                          *)
(* C11 (SegInd): for every stream of well-formed messages and every         *)
(* segmentation the messages extracted equal FrameAll(stream), the one-shot *)
(* reference.                                                               *)
(***************************************************************************)
EXTENDS Integers, Sequences, FiniteSets, TLC

CONSTANTS W, CopyFirst, Streams, MaxCuts

NL == 0
IsCL(line) == Len(line) = 1 /\ line[1] >= 10
Take(s, n) == SubSeq(s, 1, n)
DropN(s, n) == SubSeq(s, n + 1, Len(s))
RECURSIVE FlatS(_)
FlatS(ss) == IF ss = <<>> THEN <<>> ELSE Head(ss) \o FlatS(Tail(ss))

---------------------------------------------------------------------------
(* the one-shot reference *)
RECURSIVE SkipNL(_)
SkipNL(s) == IF s # <<>> /\ Head(s) = NL THEN SkipNL(Tail(s)) ELSE s
\* first line of s (without its NL) and the rest; s must contain an NL
LineEnd(s) == CHOOSE i \in DOMAIN s : s[i] = NL /\ \A j \in 1..(i - 1) : s[j] # NL
HasNL(s) == \E i \in DOMAIN s : s[i] = NL
RECURSIVE HeaderLines(_, _)
\* returns [ok, lines, rest]: the lines up to (not including) the first empty line
HeaderLines(s, acc) ==
    IF ~HasNL(s) THEN [ok |-> FALSE, lines |-> acc, rest |-> s]
    ELSE LET i == LineEnd(s)  ln == Take(s, i - 1)  r == DropN(s, i) IN
         IF ln = <<>> THEN [ok |-> TRUE, lines |-> acc, rest |-> r] ELSE HeaderLines(r, Append(acc, ln))
CLOf(lines) == LET c == {i \in DOMAIN lines : IsCL(lines[i])} IN
               IF c = {} THEN -1 ELSE lines[CHOOSE i \in c : \A j \in c : i <= j][1] - 10
RECURSIVE FrameAll(_)
FrameAll(s) ==
    LET s1 == SkipNL(s) IN
    IF s1 = <<>> THEN <<>>
    ELSE LET h == HeaderLines(s1, <<>>) IN
         IF ~h.ok \/ CLOf(h.lines) < 0 \/ Len(h.rest) < CLOf(h.lines) THEN <<>>
         ELSE <<[lines |-> h.lines, body |-> Take(h.rest, CLOf(h.lines))]>> \o FrameAll(DropN(h.rest, CLOf(h.lines)))

---------------------------------------------------------------------------
(* the incremental reader *)
VARIABLES stream, src,        \* the whole stream; the chunks not yet read
          buf, r, w,          \* the window: W cells, unread data is buf[r+1..w]
          pc,                 \* "skip", "line", "cont", "body", "done", "fail"
          frag,               \* readLine's accumulated line: [alias, lo, hi, data] - an alias denotes cells lo+1..hi of the window
          lines, need, body,  \* message under construction
          out                 \* messages delivered

vars == <<stream, src, buf, r, w, pc, frag, lines, need, body, out>>

Cells(lo, hi) == [i \in 1..(hi - lo) |-> buf[lo + i]]
Buffered == w - r
NLpos == IF \E i \in (r + 1)..w : buf[i] = NL THEN CHOOSE i \in (r + 1)..w : buf[i] = NL /\ \A j \in (r + 1)..(i - 1) : buf[j] # NL ELSE 0
NoFrag == [alias |-> FALSE, lo |-> 0, hi |-> 0, data |-> <<>>]
Deref(f) == IF f.alias THEN Cells(f.lo, f.hi) ELSE f.data

\* all segmentations with at most MaxCuts cuts
RECURSIVE Splits(_, _)
Splits(s, k) == IF s = <<>> THEN {<<>>}
                ELSE {<<s>>} \cup (IF k = 0 THEN {} ELSE UNION {{<<Take(s, i)>> \o rest : rest \in Splits(DropN(s, i), k - 1)} : i \in 1..(Len(s) - 1)})

Init == /\ stream \in Streams
        /\ src \in Splits(stream, MaxCuts)
        /\ buf = [i \in 1..W |-> 99] /\ r = 0 /\ w = 0
        /\ pc = "skip" /\ frag = NoFrag /\ lines = <<>> /\ need = 0 /\ body = <<>> /\ out = <<>>

\* bufio.Reader.fill: slide the unread data to the front, then ONE Read of the connection into the free space
Fill == /\ src # <<>>
        /\ LET kept == Cells(r, w)
               k == Len(kept)
               n == IF W - k < Len(Head(src)) THEN W - k ELSE Len(Head(src))
               got == Take(Head(src), n)
           IN /\ buf' = [i \in 1..W |-> IF i <= k THEN kept[i] ELSE IF i <= k + n THEN got[i - k] ELSE buf[i]]
              /\ r' = 0 /\ w' = k + n
              /\ src' = IF n = Len(Head(src)) THEN Tail(src) ELSE <<DropN(Head(src), n)>> \o Tail(src)

EOF == src = <<>> /\ Buffered = 0

\* skipWhiteSpace (message.go:136-151): ReadByte until a non-blank, then UnreadByte
Skip == /\ pc = "skip"
        /\ IF Buffered > 0
           THEN IF buf[r + 1] = NL THEN r' = r + 1 /\ UNCHANGED <<pc, src, buf, w>>
                ELSE pc' = "line" /\ UNCHANGED <<src, buf, r, w>>
           ELSE IF src = <<>> THEN pc' = "done" /\ UNCHANGED <<src, buf, r, w>>
                ELSE Fill /\ UNCHANGED pc
        /\ UNCHANGED <<stream, frag, lines, need, body, out>>

\* a complete line has been assembled (ParseMessage's loop body, message.go:187-221)
GotLine(ln) ==
    IF ln = <<>>
    THEN IF CLOf(lines) < 0 THEN pc' = "fail" /\ UNCHANGED <<lines, need, body, out>>
         ELSE IF CLOf(lines) = 0
              THEN pc' = "skip" /\ out' = Append(out, [lines |-> lines, body |-> <<>>]) /\ lines' = <<>> /\ UNCHANGED <<need, body>>
              ELSE pc' = "body" /\ need' = CLOf(lines) /\ body' = <<>> /\ UNCHANGED <<lines, out>>
    ELSE pc' = "line" /\ lines' = Append(lines, ln) /\ UNCHANGED <<need, body, out>>

\* readLine (message.go:112-130) on top of bufio.ReadLine
ReadLine ==
    /\ pc \in {"line", "cont"}
    /\ IF NLpos # 0
       THEN \* a line end is buffered: the (last) fragment is the cells up to it
            /\ LET fr == Cells(r, NLpos - 1)
                   whole == IF pc = "line" THEN fr ELSE Deref(frag) \o fr        \* line = append(line, b...)
               IN GotLine(whole)
            /\ r' = NLpos /\ frag' = NoFrag /\ UNCHANGED <<src, buf, w>>
       ELSE IF Buffered >= W
       THEN \* window full without a line end: ReadLine returns the whole window with isPrefix
            /\ frag' = IF pc = "line"
                       THEN (IF CopyFirst THEN [alias |-> FALSE, lo |-> 0, hi |-> 0, data |-> Cells(r, w)]
                                          ELSE [alias |-> TRUE, lo |-> r, hi |-> w, data |-> <<>>])
                       ELSE [alias |-> FALSE, lo |-> 0, hi |-> 0, data |-> Deref(frag) \o Cells(r, w)]
            /\ r' = w /\ pc' = "cont" /\ UNCHANGED <<src, buf, w, lines, need, body, out>>
       ELSE IF src = <<>>
       THEN pc' = (IF Buffered = 0 /\ pc = "line" /\ lines = <<>> THEN "done" ELSE "fail") /\ UNCHANGED <<src, buf, r, w, frag, lines, need, body, out>>
       ELSE Fill /\ UNCHANGED <<pc, frag, lines, need, body, out>>
    /\ UNCHANGED stream

\* io.ReadFull(reader, body): copies
ReadBody ==
    /\ pc = "body"
    /\ IF Len(body) = need
       THEN pc' = "skip" /\ out' = Append(out, [lines |-> lines, body |-> body]) /\ lines' = <<>> /\ UNCHANGED <<src, buf, r, w, body>>
       ELSE IF Buffered > 0
       THEN LET n == IF need - Len(body) < Buffered THEN need - Len(body) ELSE Buffered IN
            body' = body \o Cells(r, r + n) /\ r' = r + n /\ UNCHANGED <<pc, src, buf, w, lines, out>>
       ELSE IF src = <<>> THEN pc' = "fail" /\ UNCHANGED <<src, buf, r, w, body, lines, out>>
       ELSE Fill /\ UNCHANGED <<pc, body, lines, out>>
    /\ UNCHANGED <<stream, frag, need>>

Next == Skip \/ ReadLine \/ ReadBody
Spec == Init /\ [][Next]_vars

Terminated == pc \in {"done", "fail"}
SegInd == Terminated => (pc = "done" /\ out = FrameAll(stream))
=============================================================================
