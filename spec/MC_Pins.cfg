SPECIFICATION PropSpec
CONSTANTS
  Keys = {"k1","k2","k3"}
  Backs = {"b1","b2"}
  T = 2
  ExpVals = {0, 3, 1000}
  MaxNow = 8
  RearmFixed = TRUE
  MaxOps = 0
VIEW PropView
INVARIANTS Honoured Forgotten Terminated Purged
