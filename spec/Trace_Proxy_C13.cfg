SPECIFICATION TraceSpec
CONSTANT Focus = "C13"
INVARIANT Consumed
