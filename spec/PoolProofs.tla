---------------------------- MODULE PoolProofs ----------------------------
(* Unbounded facts about the pure operators, proved with TLAPS (tlapm):     *)
(* TLC checks the same operators only on bounded instances.                 *)
EXTENDS PoolOps, TLAPS

\* C05: whatever the cursor, a dispatch over a non-empty list advances it into range and delivers to a member
THEOREM DispatchInRange ==
    ASSUME NEW S, NEW l \in Seq(S), l # <<>>, NEW i \in Nat
    PROVE  /\ NextIdx(i, l) \in 0 .. (Len(l) - 1)
           /\ SeqDispatch(l, i).ok
           /\ SeqDispatch(l, i).tgt \in Range(l)
<1>1. Len(l) \in Nat /\ Len(l) > 0
  OBVIOUS
<1>2. NextIdx(i, l) \in 0 .. (Len(l) - 1)
  BY <1>1 DEF NextIdx
<1>3. (NextIdx(i, l) % Len(l)) + 1 \in 1 .. Len(l)
  BY <1>1, <1>2
<1>4. GetAt(l, NextIdx(i, l)) \in Range(l)
  BY <1>3, <1>1 DEF GetAt, Range
<1> QED BY <1>2, <1>4 DEF SeqDispatch

\* C05: a dispatch over the empty list fails and leaves the cursor alone
THEOREM DispatchEmpty == \A i : ~SeqDispatch(<<>>, i).ok /\ SeqDispatch(<<>>, i).idx = i
  BY DEF SeqDispatch

=============================================================================
