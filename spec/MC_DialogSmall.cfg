SPECIFICATION Spec
CONSTANTS Pinned = FALSE  Small = TRUE
INVARIANT LawInv
