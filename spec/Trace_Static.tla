---------------------------- MODULE Trace_Static ----------------------------
(* Trace validation for the static route lookup (C18).  One line per        *)
(* (table, host): the distinct answers the real PreConfigRoute gave over    *)
(* 50 repeated lookups on each of 3 independently built objects.            *)
EXTENDS StaticOps, TLC, Json, IOUtils

Trace == ndJsonDeserialize(IOEnv.TRACE_FILE)
VARIABLES l
Range(q) == {q[i] : i \in DOMAIN q}

Judge(e) ==
    LET res == Range(e.results) IN
    IF e.panic # "" THEN "P:panic"
    ELSE IF Cardinality(res) # 1 THEN "P:Stable"
    ELSE IF ~(res \subseteq Admissible(e.tab, e.host)) THEN "P:Precedence"
    ELSE IF res # {Lookup(e.tab, e.host)} THEN "M:not-the-first-matching-pattern-in-configuration-order"
    ELSE ""

TraceInit == l = 1
TraceNext == /\ l <= Len(Trace) /\ l' = l + 1
             /\ LET e == Trace[l]  v == Judge(e) IN
                  IF v = "" THEN TRUE
                  ELSE IF SubSeq(v, 1, 2) = "M:" THEN PrintT("WARN|" \o ToString(l) \o "|" \o e.case \o "|" \o v \o "|")
                  ELSE PrintT("FAIL|" \o ToString(l) \o "|" \o e.case \o "|" \o v \o "|")
TraceSpec == TraceInit /\ [][TraceNext]_l
Consumed == (l = Len(Trace) + 1) => PrintT("CONSUMED|" \o ToString(Len(Trace)))
=============================================================================
