--------------------------- MODULE Trace_Resolver ---------------------------
(* Trace validation for C19: resolution outcomes injected at addressResolved *)
(* of a real DynamicHostResolver wired by the real CreateRoundRobinBackend   *)
(* callback to a real RoundRobinBackend and, through the backend-change      *)
(* events, to a real Proxy loop; after quiescence the driver reports the     *)
(* rotation (GetAllBackend), the addresses the proxy recognises as backends  *)
(* (its table, and behaviourally: which of the addresses the rotation ever   *)
(* held get a dialog-establishing response attributed, and to which object), *)
(* and whether vanished backends are closed and present ones usable.         *)
EXTENDS ResolverOps, TLC, Json, IOUtils
Trace == ndJsonDeserialize(IOEnv.TRACE_FILE)
VARIABLES l, hist, ports        \* ports: host name -> the port its backend url was configured with
tvars == <<l, hist, ports>>
Put(f, k, v) == [x \in DOMAIN f \cup {k} |-> IF x = k THEN v ELSE f[x]]
\* expected rotation: the union of the contributions of all names, as ip:port
Verdict(e, h2) ==
    LET exp == UNION {{ip \o ":" \o ports[n] : ip \in Contribution(h2[n])} : n \in DOMAIN h2} IN
    IF e.panic # "" THEN "P:C19:panic"
    ELSE IF Range(e.member) # exp THEN
         (IF ~(exp \subseteq Range(e.member)) THEN "P:C19:resolved-address-missing-from-the-rotation" ELSE "P:C19:vanished-address-still-in-the-rotation")
    ELSE IF Range(e.known) # exp THEN "P:C19:proxy-does-not-recognise-exactly-the-rotation-as-its-backends"
    ELSE IF e.attributed_stale # <<>> THEN "P:C19:response-attributed-to-a-backend-that-has-left-the-rotation"
    ELSE IF Range(e.attributed) # exp THEN "P:C19:responses-not-attributed-to-exactly-the-backends-in-rotation"
    ELSE IF ~e.closed_ok THEN "P:C19:vanished-backend-not-closed"
    ELSE IF ~e.open_ok THEN "P:C19:backend-in-rotation-is-not-usable"
    ELSE ""
TraceInit == l = 1 /\ hist = <<>> /\ ports = <<>>
TraceNext ==
  /\ l <= Len(Trace) /\ l' = l + 1
  /\ LET e == Trace[l] IN
     IF e.ev = "reset" THEN hist' = <<>> /\ ports' = e.ports
     ELSE LET o == [ok |-> e.ok, addrs |-> Range(e.addrs)]
              h2 == Put(hist, e.name, IF e.name \in DOMAIN hist THEN Append(hist[e.name], o) ELSE <<o>>)
          IN /\ hist' = h2 /\ ports' = ports
             /\ LET v == Verdict(e, h2) IN
                IF v # "" THEN PrintT("FAIL|" \o ToString(l) \o "|" \o e.case \o "|" \o v \o "|" \o e.cls) ELSE TRUE
TraceSpec == TraceInit /\ [][TraceNext]_tvars
Consumed == (l = Len(Trace) + 1) => PrintT("CONSUMED|" \o ToString(Len(Trace)))
=============================================================================
