SPECIFICATION Spec
CONSTANTS
  Addrs = {"1", "2", "3"}
  MaxLen = 6
INVARIANTS Tracks
