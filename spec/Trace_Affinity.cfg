SPECIFICATION TraceSpec
CONSTANT Prop = "C12"
INVARIANT Consumed
