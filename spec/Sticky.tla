------------------------------- MODULE Sticky -------------------------------
(***************************************************************************)
(* Dialog stickiness (C04): the composition of the pool rotation, the pin   *)
(* table and the events of proxy.go that write and read it.                 *)
(*   handleDialog (345-371): a backend's INVITE response with both tags     *)
(*       pins the dialog; a BYE response unpins it;                         *)
(*   HandleMessage response branch (392-405): a SUBSCRIBE response that     *)
(*       travels towards a backend pins the dialog to that backend;         *)
(*   sendToBackend / findBackendByDialog (454-518): a request carrying both *)
(*       tags is looked up in the pin table, a miss is load-balanced; a     *)
(*       NOTIFY with Subscription-State "terminated" unpins after routing.  *)
(* MethodExcluded = TRUE models the pinned tree, which excludes INVITE and  *)
(* SUBSCRIBE from the lookup by method name (defect D17).                   *)
(* Dialog identity is abstract here (C16 makes both directions one key).    *)
(* Time: all dialogs are within their lifetime (C15 is about the rest), but  *)
(* the PROXY may have been up for longer than a dialog timeout since the     *)
(* last purge of the pin table (UptimePasses); the next pin that is stored   *)
(* then runs the purge (backend.go AddBackend / cleanExpiredDialog), which   *)
(* removes expired pins only - none here.  PurgeEvictsLive = TRUE models a   *)
(* purge that measures expiry against the re-armed purge time instead of     *)
(* the clock: it evicts every pin but the one just stored.                   *)
(***************************************************************************)
EXTENDS PoolOps

CONSTANTS Dialogs, Backs, MethodExcluded, PurgeEvictsLive, ExpiresIgnored, RejectUnpins

Methods == {"ACK", "BYE", "INVITE", "UPDATE", "INFO", "NOTIFY", "SUBSCRIBE"}

VARIABLES idx,       \* rotation index of the pool (membership fixed in this model: the list is Backs in order)
          pins,      \* the code's dialog pins        : Dialog -|-> backend
          inv,       \* history: who received the initial INVITE of a dialog (it is the one that answers)
          answered,  \* history (declarative): Dialog -|-> backend that answered / whose SUBSCRIBE was answered
          last,      \* the last dispatch: [dlg, method, tgt, origin]
          due,       \* more than a dialog timeout has passed since the pin table was last purged
          long,      \* dialogs established by a response whose Expires exceeds the dialog timeout
          tx         \* live binding of a dialog's INVITE transaction : Dialog -|-> backend it was dispatched to

vars == <<idx, pins, inv, answered, last, due, long, tx>>

CONSTANT BackSeq     \* Backs as a sequence (registration order)

Put(f, k, v) == [x \in DOMAIN f \cup {k} |-> IF x = k THEN v ELSE f[x]]
Drop(f, k) == [x \in DOMAIN f \ {k} |-> f[x]]
NoDispatch == [dlg |-> "-", method |-> "-", tgt |-> "-", origin |-> "-"]

Init == idx = 0 /\ pins = <<>> /\ inv = <<>> /\ answered = <<>> /\ last = NoDispatch /\ due = FALSE /\ long = {} /\ tx = <<>>
\* storing pin k runs the purge when one is due
AfterPurge(p, k) == IF due /\ PurgeEvictsLive THEN [x \in {k} |-> p[x]] ELSE p
UptimePasses == due' = TRUE /\ UNCHANGED <<idx, pins, inv, answered, last, long, tx>>
Restrict(f, S) == [x \in DOMAIN f \cap S |-> f[x]]
\* one dialog timeout passes (less than the Expires of the long dialogs): what the code still honours, what the property still claims
TimeoutPasses == /\ pins' = Restrict(pins, IF ExpiresIgnored THEN {} ELSE long)
                 /\ answered' = Restrict(answered, long)
                 /\ due' = TRUE
                 /\ tx' = <<>>                                   \* transaction bindings live one dialog timeout
                 /\ UNCHANGED <<idx, inv, last, long>>

PoolPick == SeqDispatch(BackSeq, idx)

\* a request that belongs to no dialog yet (initial INVITE, OPTIONS ...): load-balanced
Initial(d) == /\ d \notin DOMAIN inv
              /\ idx' = PoolPick.idx
              /\ inv' = Put(inv, d, PoolPick.tgt)
              /\ last' = [dlg |-> d, method |-> "INVITE0", tgt |-> PoolPick.tgt, origin |-> "pool"]
              /\ tx' = Put(tx, d, "pool")
              /\ UNCHANGED <<pins, answered, due, long>>
Unrelated == /\ idx' = PoolPick.idx
             /\ last' = [dlg |-> "-", method |-> "OPTIONS", tgt |-> PoolPick.tgt, origin |-> "pool"]
             /\ UNCHANGED <<pins, inv, answered, due, long, tx>>

\* the backend that holds the dialog answers the INVITE (or a re-INVITE) with both tags
Answer(d, lg) ==
             /\ d \in DOMAIN inv
             /\ long' = (IF lg THEN long \cup {d} ELSE long \ {d})
             /\ pins' = AfterPurge(Put(pins, d, inv[d]), d) /\ due' = FALSE
             /\ answered' = IF d \in DOMAIN answered THEN answered ELSE Put(answered, d, inv[d])
             /\ last' = NoDispatch
             /\ UNCHANGED <<idx, inv, tx>>

\* the backend answers the INVITE from ANOTHER address than the registered one: attributed through the transaction
\* binding if there is one (else not at all); a final response consumes the binding
AnswerElsewhere(d, final) ==
             /\ d \in DOMAIN inv
             /\ IF d \in DOMAIN tx /\ tx[d] # "pool"
                THEN /\ pins' = AfterPurge(Put(pins, d, tx[d]), d) /\ due' = FALSE
                     /\ answered' = (IF d \in DOMAIN answered THEN answered ELSE Put(answered, d, tx[d]))
                     /\ long' = long \ {d}
                ELSE IF d \in DOMAIN tx          \* bound to the rotation: the dialog is released, the property claims nothing further
                THEN /\ pins' = Drop(pins, d) /\ answered' = Drop(answered, d) /\ long' = long \ {d} /\ UNCHANGED due
                ELSE UNCHANGED <<pins, due, answered, long>>
             /\ tx' = (IF final THEN Drop(tx, d) ELSE tx)
             /\ last' = NoDispatch
             /\ UNCHANGED <<idx, inv>>

\* the backend REJECTS an INVITE of an established dialog (a re-INVITE answered 488 / 491 / 603 ... with both tags):
\* the dialog lives on (RFC 3261 14.1) and the response, coming from the backend, binds it like any other - with the
\* lifetime of a response without Expires.  RejectUnpins = TRUE models a proxy that releases the pin on such a response.
Rejected(d) ==
             /\ d \in DOMAIN inv /\ d \in DOMAIN answered
             /\ pins' = (IF RejectUnpins THEN Drop(pins, d) ELSE AfterPurge(Put(pins, d, inv[d]), d)) /\ due' = FALSE
             /\ long' = long \ {d}
             /\ last' = NoDispatch
             /\ UNCHANGED <<idx, inv, answered, tx>>

\* a SUBSCRIBE issued by backend b is answered from outside: the response passes towards b
SubscribeAnswered(d, b, lg) ==
                           /\ d \notin DOMAIN answered /\ d \notin DOMAIN inv
                           /\ long' = (IF lg THEN long \cup {d} ELSE long \ {d})
                           /\ pins' = AfterPurge(Put(pins, d, b), d) /\ due' = FALSE
                           /\ answered' = Put(answered, d, b)
                           /\ inv' = Put(inv, d, b)
                           /\ last' = NoDispatch
                           /\ UNCHANGED <<idx, tx>>

\* an in-dialog request (both tags) addressed to the service, from either party
InDialog(d, m) ==
    /\ d \in DOMAIN inv
    /\ LET lookup == ~(MethodExcluded /\ m \in {"INVITE", "SUBSCRIBE"})
           hit == lookup /\ d \in DOMAIN pins
           tgt == IF hit THEN pins[d] ELSE PoolPick.tgt
       IN /\ idx' = IF hit THEN idx ELSE PoolPick.idx
          /\ last' = [dlg |-> d, method |-> m, tgt |-> tgt, origin |-> IF hit THEN "pin" ELSE "pool"]
          /\ inv' = IF m = "INVITE" THEN Put(inv, d, tgt) ELSE inv      \* whoever gets the re-INVITE answers it
          /\ tx' = IF m = "INVITE" THEN Put(tx, d, IF hit THEN tgt ELSE "pool") ELSE tx
          /\ pins' = pins
          /\ UNCHANGED <<answered, due, long>>

\* NOTIFY with Subscription-State: terminated - routed like any in-dialog request, then the pin is dissolved
NotifyTerminated(d) ==
    /\ d \in DOMAIN inv
    /\ LET hit == d \in DOMAIN pins
           tgt == IF hit THEN pins[d] ELSE PoolPick.tgt
       IN /\ idx' = IF hit THEN idx ELSE PoolPick.idx
          /\ last' = [dlg |-> d, method |-> "NOTIFY", tgt |-> tgt, origin |-> IF hit THEN "pin" ELSE "pool"]
    /\ pins' = Drop(pins, d)
    /\ answered' = Drop(answered, d)
    /\ long' = long \ {d}
    /\ UNCHANGED <<inv, due, tx>>

\* the backend answers a BYE of the dialog (any status)
ByeAnswered(d) == /\ d \in DOMAIN inv
                  /\ pins' = Drop(pins, d)
                  /\ answered' = Drop(answered, d)
                  /\ last' = NoDispatch
                  /\ long' = long \ {d}
                  /\ UNCHANGED <<idx, inv, due, tx>>

Next == \/ \E d \in Dialogs : Initial(d) \/ ByeAnswered(d) \/ NotifyTerminated(d) \/ Rejected(d)
        \/ \E d \in Dialogs, lg \in BOOLEAN : Answer(d, lg)
        \/ \E d \in Dialogs, f \in BOOLEAN : AnswerElsewhere(d, f)
        \/ \E d \in Dialogs, m \in Methods : InDialog(d, m)
        \/ \E d \in Dialogs, b \in Backs, lg \in BOOLEAN : SubscribeAnswered(d, b, lg)
        \/ Unrelated \/ UptimePasses \/ TimeoutPasses
Spec == Init /\ [][Next]_vars

---------------------------------------------------------------------------
(* C04 *)
\* every request of a known dialog is delivered to the backend that answered it, whatever its method
Sticky == (last.dlg \in DOMAIN answered /\ last.method # "INVITE0") => last.tgt = answered[last.dlg]
StickyStep == [][\A d \in Dialogs : (last'.dlg = d /\ d \in DOMAIN answered /\ last' # last) => last'.tgt = answered[d]]_vars
\* requests of no known dialog are load-balanced
Balanced == [][(last' # last /\ last'.tgt # "-" /\ last'.dlg \notin DOMAIN answered) => last'.origin = "pool"]_vars
PinsAreAnswered == DOMAIN pins \subseteq DOMAIN answered
\* the binding of a dialog's INVITE transaction names the backend the INVITE went to
TxAgrees == \A d \in DOMAIN tx : d \in DOMAIN inv /\ tx[d] \in {"pool", inv[d]}
=============================================================================
