SPECIFICATION TraceSpec
CONSTANT Prop = "C02"
INVARIANT Consumed
