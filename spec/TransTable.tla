----------------------------- MODULE TransTable -----------------------------
(***************************************************************************)
(* Life cycle of the client-transport table (transport.go:205-318) under    *)
(* everything the proxy does with it:                                       *)
(*   Acc(c)        the loop's ConnectionAccepted branch: per-destination     *)
(*                 entry of the peer's address with the accepted connection  *)
(*                 as primary                                                *)
(*   Req(c, t)     handleRawMessage: request of transaction t read from      *)
(*                 connection c registers c under the response hop           *)
(*   SendTcp(d,t,f) sendMessage over tcp: a response (f: final) to a client, *)
(*                 or a request forwarded to a tcp next hop (never final)    *)
(*   SendUdp(d,f)  sendMessage over udp                                      *)
(*   Tick(n)       time passes; the sweep runs inside the next Get           *)
(* What TLC establishes about the design (and what it shows is NOT true):    *)
(*   SweptClean    right after a sweep no entry has an expired primary       *)
(*   InOnlyPrimary accepted / inbound connections are only ever primaries    *)
(*   LeakStable    an entry created for a FORWARDED request (no primary,     *)
(*                 transaction key) is removed by nothing but a final        *)
(*                 response with the same key - which the proxy never sends  *)
(*                 to a next hop: such entries stay for the process          *)
(*                 lifetime (named deviation: the table grows by one entry   *)
(*                 per request forwarded over tcp)                           *)
(*   Reach_Orphan  (expected violation) once the per-destination entry has   *)
(*                 been swept - it carries the accepted connection, which    *)
(*                 expires after an hour - a new outbound client is created  *)
(*                 while older transaction entries keep the old one: two     *)
(*                 outbound connections to one destination                   *)
(*   Reach_UdpChurn (expected violation) every final response over udp       *)
(*                 deletes the udp entry of its destination; the next send   *)
(*                 creates a new client object (a new socket)                *)
(***************************************************************************)
EXTENDS TransTableOps

CONSTANTS Conns, AddrOf, HopOf, Dests, Txs, Ticks, MaxTicks, MaxObj
VARIABLES s, last, nticks
vars == <<s, last, nticks>>

Init == /\ s = [tab |-> <<>>, now |-> 0, lastClean |-> 0, nobj |-> 0]
        /\ last = [op |-> "init", c |-> "", key |-> <<"", "", "">>, final |-> FALSE, via |-> NoObj]
        /\ nticks = 0

Acc(c) == /\ s' = Accepted(s, AddrOf[c], c)
          /\ last' = [op |-> "acc", c |-> c, key |-> PeerKey(AddrOf[c]), final |-> FALSE, via |-> NoObj]
          /\ UNCHANGED nticks
Req(c, t) == /\ s' = Register(s, HopOf[c], t, c)
             /\ last' = [op |-> "req", c |-> c, key |-> KeyOf("tcp", HopOf[c], t), final |-> FALSE, via |-> NoObj]
             /\ UNCHANGED nticks
SendTcp(d, t, f) == LET r == Send(s, "tcp", d, t, f) IN
                    /\ s' = r.s
                    /\ last' = [op |-> "send", c |-> "", key |-> KeyOf("tcp", d, t), final |-> f, via |-> r.via]
                    /\ UNCHANGED nticks
SendUdp(d, f) == LET r == Send(s, "udp", d, "", f) IN
                 /\ s' = r.s
                 /\ last' = [op |-> "send", c |-> "", key |-> KeyOf("udp", d, ""), final |-> f, via |-> r.via]
                 /\ UNCHANGED nticks
TickA(n) == /\ nticks < MaxTicks
            /\ s' = Tick(s, n) /\ nticks' = nticks + 1
            /\ last' = [op |-> "tick", c |-> "", key |-> <<"", "", "">>, final |-> FALSE, via |-> NoObj]

Next == \/ \E c \in Conns : Acc(c)
        \/ \E c \in Conns, t \in Txs : Req(c, t)
        \/ \E d \in Dests, t \in Txs \cup {""}, f \in BOOLEAN : SendTcp(d, t, f)
        \/ \E d \in Dests, f \in BOOLEAN : SendUdp(d, f)
        \/ \E n \in Ticks : TickA(n)
Spec == Init /\ [][Next]_vars
Bound == s.nobj <= MaxObj

SweptClean == s.lastClean = s.now => \A k \in DOMAIN s.tab : ~ObjExpired(s.tab[k].pri, s.now)
InOnlyPrimary == \A k \in DOMAIN s.tab : s.tab[k].sec.k \in {"none", "out"} /\ (k[1] = "udp" => s.tab[k].pri.k = "udp")
\* a message is never handed to "nothing": every entry can carry a message
Connected == \A k \in DOMAIN s.tab : s.tab[k].pri.k # "none" \/ s.tab[k].sec.k # "none"
Forwarded(st) == {k \in DOMAIN st.tab : k[3] # "" /\ st.tab[k].pri.k = "none"}
LeakStable == [][\A k \in Forwarded(s) : k \in DOMAIN s'.tab \/ (last'.op = "send" /\ last'.final /\ last'.key = k)]_vars
\* a transaction entry with a live (unexpired) inbound primary is removed only by its own final response
LiveKept == [][\A k \in DOMAIN s.tab : (k[3] # "" /\ s.tab[k].pri.k = "in" /\ ~ObjExpired(s.tab[k].pri, s'.now))
                    => (k \in DOMAIN s'.tab \/ (last'.op = "send" /\ last'.final /\ last'.key = k))]_vars

Reach_Orphan == \A k \in DOMAIN s.tab : SecRel(s, k) # "own" \/ PeerKey(k[2]) \notin DOMAIN s.tab
Reach_UdpChurn == ~(\E k \in DOMAIN s.tab : s.tab[k].pri.k = "udp" /\ s.tab[k].pri.id >= 2 /\ s.nobj = 2)
Reach_Leak == ~(Cardinality(Forwarded(s)) >= 2 /\ nticks = MaxTicks /\ s.lastClean = s.now /\ s.now > 3600)
=============================================================================
