SPECIFICATION Spec
CONSTANTS
  Addrs = {"1", "2", "3"}
  MaxLen = 5
INVARIANTS Tracks
CONSTRAINT Emit
