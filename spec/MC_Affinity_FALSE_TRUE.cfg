SPECIFICATION MCSpec
CONSTANTS
  Conns <- MCConns
  SentBy <- MCSentBy
  Txs <- MCTxs
  TxConn <- MCTxConn
  SharePerPeer = TRUE
  EqualSentBy = FALSE
VIEW PropView
INVARIANTS AffinityInv
