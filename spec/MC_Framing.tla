----------------------------- MODULE MC_Framing -----------------------------
EXTENDS Framing, Json, CSV, IOUtils
CL(k) == 10 + k
Ma == <<1, 2, NL, CL(0), NL, NL>>                                         \* no body
Mb == <<1, 2, 3, NL, 4, 5, 6, 7, 8, NL, CL(2), NL, NL, NL, CL(1)>>        \* header line of W+1 symbols; the body looks like a line end + a Content-Length
Mc == <<1, 2, 3, 4, NL, CL(0), NL, NL>>                                   \* a line of exactly W symbols
Md == <<5, NL, 1, 2, 3, 4, 5, 6, 7, 8, 9, NL, CL(1), NL, NL, 7>>          \* a line of 2W+1 symbols, body of one symbol
Me == <<1, 2, 3, NL, CL(3), NL, NL, 1, NL, 2>>                            \* line of W-1, body containing a line end
MCStreams == { Ma, Mb, Mc, Md, Me, Ma \o <<NL, NL>> \o Mb, Mb \o Ma, <<NL>> \o Md \o <<NL>> \o Mc \o <<NL, NL>>, Me \o Mc \o Ma }
Reach_LongLine == ~(pc = "cont")
\* leg R: every (stream, segmentation) pair, written once (initial states only)
Emit == (pc = "skip" /\ w = 0 /\ out = <<>> /\ Len(FlatS(src)) = Len(stream)) => CSVWrite("%1$s", <<ToJson([stream |-> stream, chunks |-> [i \in DOMAIN src |-> Len(src[i])]])>>, IOEnv.OUT)
=============================================================================
