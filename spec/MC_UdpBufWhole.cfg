SPECIFICATION Spec
CONSTANTS
  Seqs <- MCSeqs3
  BufSize = 4
  MaxBufs = 3
  Whole = TRUE
INVARIANTS Isolation Discard
