SPECIFICATION TraceSpec
INVARIANT Consumed
