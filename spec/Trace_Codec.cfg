SPECIFICATION TraceSpec
INVARIANT Consumed
