--------------------------- MODULE MC_TransTable ---------------------------
EXTENDS TransTable
MCConns == {"c1", "c2"}
MCAddrOf == ("c1" :> "a1") @@ ("c2" :> "a2")          \* the address a connection was accepted from
MCHopOf == ("c1" :> "a1") @@ ("c2" :> "h1")           \* response hop of its requests: the true source (received-support) / the announced sent-by
MCDests == {"a1", "a2", "h1"}
MCTxs == {"t1"}
MCTicks == {60, 3600}
SimTxs == {"t1", "t2", "t3"}
=============================================================================
