---------------------------- MODULE ResolverOps ----------------------------
(***************************************************************************)
(* Backends given by host name (C19) - pure operators.                      *)
(* Operational: DynamicHostResolver.addressResolved (resolver.go:157-190)   *)
(* - per name the last address list and a failure counter; a success        *)
(* replaces the list and resets the counter, a failure increments it and,   *)
(* when it exceeds 3 while addresses are known, empties the list and resets *)
(* the counter; every change is notified as (new, removed) and applied to   *)
(* the rotation by hostIPChanged (backend.go:367-388): add the new ones,    *)
(* then remove (and close) the vanished ones; each posts an event that the  *)
(* proxy loop applies to its index of backend addresses.                    *)
(* Declarative: the contribution of a name after a history of outcomes.     *)
(***************************************************************************)
EXTENDS Integers, Sequences, FiniteSets

Range(q) == {q[i] : i \in DOMAIN q}
\* e = [addrs : set, failed : Nat];  outcome o = [ok : BOOLEAN, addrs : set]
Resolved(e, o) ==
    IF o.ok THEN [e |-> [addrs |-> o.addrs, failed |-> 0], new |-> o.addrs \ e.addrs, removed |-> e.addrs \ o.addrs]
    ELSE IF e.failed + 1 > 3 /\ e.addrs # {}
         THEN [e |-> [addrs |-> {}, failed |-> 0], new |-> {}, removed |-> e.addrs]
         ELSE [e |-> [addrs |-> e.addrs, failed |-> e.failed + 1], new |-> {}, removed |-> {}]
\* hostIPChanged applied to the member set
Apply(member, r) == (member \cup r.new) \ r.removed

\* Declarative: what a name contributes after the outcome history h (property text):
\* the last successful resolution, unless four or more consecutive failures have followed it
RECURSIVE TrailingFails(_)
TrailingFails(h) == IF h = <<>> \/ h[Len(h)].ok THEN 0 ELSE 1 + TrailingFails(SubSeq(h, 1, Len(h) - 1))
LastOk(h) == LET oks == {i \in DOMAIN h : h[i].ok} IN
             IF oks = {} THEN {} ELSE h[CHOOSE i \in oks : \A j \in oks : j <= i].addrs
Contribution(h) == IF TrailingFails(h) >= 4 THEN {} ELSE LastOk(h)
=============================================================================
