----------------------------- MODULE Trace_Pool -----------------------------
(* Trace validation for Pool (leg T).  One NDJSON line per event, many cases *)
(* per file ("reset" lines).  Events under the pool mutex (add, rm, next,    *)
(* cnt, get) carry the order of the critical sections; begin/recv/ret are    *)
(* per-thread program order.  Every field is logged, so the trace spec is    *)
(* deterministic: each line is judged by Step; a line the specification      *)
(* cannot explain is reported (FAIL = the declarative property C05 is        *)
(* violated by what the code did; WARN = the code deviates from the          *)
(* operational model but the property still holds) and the rest of that case *)
(* is skipped.                                                               *)
EXTENDS PoolOps, TLC, Json, IOUtils

Trace == ndJsonDeserialize(IOEnv.TRACE_FILE)

VARIABLES l, st, mode
tvars == <<l, st, mode>>

NoThread == [pc |-> "none", chosen |-> "none", nrecv |-> 0, empty |-> FALSE, was |-> {}]
Th(s, g) == IF g \in DOMAIN s.th THEN s.th[g] ELSE NoThread
SetTh(s, g, v) == [s EXCEPT !.th = [x \in DOMAIN s.th \cup {g} |-> IF x = g THEN v ELSE s.th[x]]]
\* every in-flight dispatch learns that the pool was empty at some moment / that a was registered at some moment
MarkEmpty(s) == IF s.member # {} THEN s
                ELSE [s EXCEPT !.th = [x \in DOMAIN s.th |-> [s.th[x] EXCEPT !.empty = TRUE]]]
MarkAdded(s, a) == [s EXCEPT !.th = [x \in DOMAIN s.th |-> [s.th[x] EXCEPT !.was = @ \cup {a}]]]

Fresh(e) == [case |-> e.case, seq |-> e.seq, list |-> <<>>, idx |-> 0, member |-> {}, since |-> <<>>,
             th |-> [x \in {} |-> NoThread]]

OK(s)        == [ok |-> TRUE,  st |-> s, what |-> "", warn |-> ""]
Warn(s, w)   == [ok |-> TRUE,  st |-> s, what |-> "", warn |-> w]
Bad(s, w)    == [ok |-> FALSE, st |-> s, what |-> w,  warn |-> ""]

(* Verdicts (P:) rest only on what the property talks about: membership     *)
(* changes (add/rm, ordered by the pool mutex), and what the dispatcher      *)
(* observes from outside (begin, the receipt at a backend, the returned      *)
(* error).  The events from inside the dispatch (next, cnt, get) bind the    *)
(* code to the operational model and yield only warnings (M:), so a          *)
(* different but equally fair rotation is not an alarm.                      *)
Step(s, e) ==
  CASE e.ev = "add" ->
         IF e.a \in s.member THEN Bad(s, "DRIVER:add-present")
         ELSE LET s1 == MarkAdded([s EXCEPT !.list = AddOp(@, e.a), !.member = @ \cup {e.a}, !.since = <<>>], e.a)
              IN IF e.len # Len(s1.list) THEN Warn(s1, "M:len-after-add") ELSE OK(s1)
    [] e.ev = "rm" ->
         LET s1 == MarkEmpty([s EXCEPT !.list = RemoveOp(@, e.a), !.member = @ \ {e.a}, !.since = <<>>])
         IN IF e.len # Len(s1.list) THEN Warn(s1, "M:len-after-rm") ELSE OK(s1)
    [] e.ev = "begin" ->
         OK(SetTh(s, e.g, [pc |-> "begun", chosen |-> "none", nrecv |-> 0, empty |-> (s.member = {}), was |-> s.member]))
    [] e.ev = "next" ->
         LET t == Th(s, e.g)
             j == IF s.list = <<>> THEN -1 ELSE NextIdx(s.idx, s.list)
             s1 == SetTh([s EXCEPT !.idx = e.idx], e.g, [t EXCEPT !.pc = "haveIdx"])
         IN IF t.pc # "begun" \/ j # e.idx \/ e.n # Len(s.list) THEN Warn(s1, "M:next-index") ELSE OK(s1)
    [] e.ev = "cnt" -> OK(s)
    [] e.ev = "get" ->
         LET t == Th(s, e.g)
             s1 == SetTh(s, e.g, [t EXCEPT !.pc = "got", !.chosen = e.a])
         IN IF s.list = <<>> \/ e.a # GetAt(s.list, e.i) \/ t.pc # "haveIdx" THEN Warn(s1, "M:get-target") ELSE OK(s1)
    [] e.ev = "recv" ->
         LET t == Th(s, e.g)
             h == Append(s.since, e.a)
             s1 == SetTh([s EXCEPT !.since = h], e.g, [t EXCEPT !.nrecv = 1])
         IN IF t.pc = "none" THEN Bad(s, "DRIVER:receipt-outside-dispatch")
            ELSE IF t.nrecv # 0 THEN Bad(s, "P:delivered-twice")
            ELSE IF e.a \notin t.was THEN Bad(s, "P:Member")
            ELSE IF s.seq /\ ~WindowOf(h, Cardinality(s.member)) THEN Bad(s, "P:Window")
            ELSE IF s.seq /\ ~BalanceOf(h, s.member) THEN Bad(s, "P:Balance")
            ELSE IF t.chosen # e.a THEN Warn(s1, "M:delivered-is-not-the-logged-choice")
            ELSE OK(s1)
    [] e.ev = "ret" ->
         LET t == Th(s, e.g) IN
         IF e.ok /\ t.nrecv # 1 THEN Bad(s, "P:success-without-delivery")
         ELSE IF ~e.ok /\ t.nrecv # 0 THEN Bad(s, "P:error-after-delivery")
         ELSE IF ~e.ok /\ ~t.empty THEN Bad(s, "P:dropped-although-a-backend-was-registered")
         ELSE IF s.seq /\ e.ok /\ t.empty THEN Bad(s, "P:EmptyDrop")
         ELSE IF s.seq /\ e.idx # s.idx THEN Warn(SetTh([s EXCEPT !.idx = e.idx], e.g, NoThread), "M:index-after-dispatch")
         ELSE OK(SetTh(s, e.g, NoThread))
    [] e.ev = "panic" -> Bad(s, "P:panic-in-dispatch")
    [] e.ev = "stuck" -> Bad(s, "P:pool-operation-never-returned")
    [] OTHER -> Bad(s, "DRIVER:unknown-event")

TraceInit == l = 1 /\ mode = "skip" /\ st = Fresh([case |-> "", seq |-> TRUE])

TraceNext ==
  /\ l <= Len(Trace)
  /\ l' = l + 1
  /\ LET e == Trace[l] IN
     IF e.ev = "reset" THEN st' = Fresh(e) /\ mode' = "run"
     ELSE IF mode = "skip" THEN UNCHANGED <<st, mode>>
     ELSE LET r == Step(st, e) IN
          IF r.ok
          THEN /\ st' = r.st /\ mode' = "run"
               /\ (r.warn # "" => PrintT("WARN|" \o ToString(l) \o "|" \o st.case \o "|" \o r.warn \o "|"))
          ELSE /\ PrintT("FAIL|" \o ToString(l) \o "|" \o st.case \o "|" \o r.what \o "|")
               /\ mode' = "skip" /\ UNCHANGED st

TraceSpec == TraceInit /\ [][TraceNext]_tvars

Consumed == (l = Len(Trace) + 1) => PrintT("CONSUMED|" \o ToString(Len(Trace)))
=============================================================================
