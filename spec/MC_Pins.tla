------------------------------ MODULE MC_Pins ------------------------------
EXTENDS Pins, TLC, Json, CSV, IOUtils
CONSTANTS MaxOps
VARIABLES n, hist
mcvars == <<vars, n, hist>>

MCInit == Init /\ n = 0 /\ hist = <<>>
\* sampling variant (leg R): every step lets d time units pass and then performs one operation
MCNext == /\ n < MaxOps /\ n' = n + 1
          /\ \E d \in 0..3 :
             \/ \E k \in Keys, b \in Backs, e \in ExpVals :
                  Add(k, b, e, now + d) /\ hist' = Append(hist, [op |-> "add", k |-> k, b |-> b, e |-> e, d |-> d])
             \/ \E k \in Keys : Get(k, now + d)    /\ hist' = Append(hist, [op |-> "get", k |-> k, b |-> "", e |-> 0, d |-> d])
             \/ \E k \in Keys : Remove(k, now + d) /\ hist' = Append(hist, [op |-> "rm",  k |-> k, b |-> "", e |-> 0, d |-> d])
MCSpec == MCInit /\ [][MCNext]_mcvars
\* exhaustive property runs ignore the input history and the step counter
PropNext == Next /\ UNCHANGED <<n, hist>>
PropSpec == MCInit /\ [][PropNext]_mcvars
PropView == vars
\* simulation runs emit the behaviour when it is complete (leg R)
EmitInv == (n = MaxOps) => CSVWrite("%1$s", <<ToJson(hist)>>, IOEnv.OUT)
\* anti-vacuity: TLC must violate these
Reach_ExpiredPresent == ~(\E k \in DOMAIN tab.pins : tab.pins[k].exp < now)
Reach_SweepWithHuge  == ~(justAdded /\ tab.nc > 500)
=============================================================================
