SPECIFICATION Spec
CONSTANTS
  Txs = {"t1", "t2"}
  Recv = FALSE
INVARIANTS ReturnPath
