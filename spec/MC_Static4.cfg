SPECIFICATION Spec
CONSTANTS MaxEntries = 4
INVARIANTS LookupAdmissible RegexIsGlob
CONSTRAINT Emit
