SPECIFICATION Spec
CONSTANTS MaxEntries = 3
INVARIANTS Reach_Overlap
