---------------------------- MODULE Trace_Dialog ----------------------------
(* Trace validation for dialog identity (C16).  Each line is one message    *)
(* handed to the real parser and GetDialog: the abstract identity the       *)
(* driver rendered (Call-ID, two tags, two URIs) and the interned result    *)
(* string.  Within a batch (between resets) the real results must induce    *)
(* exactly the partition of the declarative identity Decl.                  *)
EXTENDS DialogOps, TLC, Json, IOUtils

Trace == ndJsonDeserialize(IOEnv.TRACE_FILE)
VARIABLES l, c2d, d2c
tvars == <<l, c2d, d2c>>
Put(f, k, v) == [x \in DOMAIN f \cup {k} |-> IF x = k THEN v ELSE f[x]]
Empty == [x \in {} |-> 0]

Judge(e) ==
    IF e.code = "PANIC" THEN "P:panic"
    ELSE IF ~(e.hasft /\ e.hastt) THEN (IF e.code = "ERR" THEN "" ELSE "P:message-lacking-a-tag-belongs-to-a-dialog")
    ELSE IF e.code = "ERR" THEN "P:no-dialog-although-both-tags-present"
    ELSE LET d == Decl(e) IN
         IF e.code \in DOMAIN c2d /\ c2d[e.code] # d THEN "P:two-different-dialogs-share-one-identity"
         ELSE IF d \in DOMAIN d2c /\ d2c[d] # e.code THEN "P:same-dialog-two-identities"
         ELSE ""

TraceInit == l = 1 /\ c2d = Empty /\ d2c = Empty
TraceNext ==
  /\ l <= Len(Trace) /\ l' = l + 1
  /\ LET e == Trace[l] IN
     IF e.ev = "reset" THEN c2d' = Empty /\ d2c' = Empty
     ELSE LET v == Judge(e) IN
          IF v # "" THEN PrintT("FAIL|" \o ToString(l) \o "|" \o e.case \o "|" \o v \o "|" \o e.cls) /\ UNCHANGED <<c2d, d2c>>
          ELSE IF e.hasft /\ e.hastt
               THEN c2d' = Put(c2d, e.code, Decl(e)) /\ d2c' = Put(d2c, Decl(e), e.code)
               ELSE UNCHANGED <<c2d, d2c>>
TraceSpec == TraceInit /\ [][TraceNext]_tvars
Consumed == (l = Len(Trace) + 1) => PrintT("CONSUMED|" \o ToString(Len(Trace)))
=============================================================================
