---------------------------- MODULE Trace_Sticky ----------------------------
(***************************************************************************)
(* Trace validation of dialog stickiness through the real message loop      *)
(* (C04) and of pin lifetime / termination through the loop (C15).          *)
(* The history variable `answered` is maintained DECLARATIVELY from the     *)
(* messages the driver saw going in - a backend's INVITE response with both *)
(* tags, a SUBSCRIBE response passing towards a backend, a BYE answered by  *)
(* a backend, a NOTIFY terminated - with the dialog identity of C16         *)
(* (unordered pair of (tag, URI) halves + Call-ID).  Every dispatch is then *)
(* judged against it.  Time: every step is bracketed [t0, t1] (us); a       *)
(* lifetime verdict is given only when it holds for every instant of the    *)
(* bracket.                                                                 *)
(***************************************************************************)
EXTENDS ProxyJudge, ConfigOps, Json, IOUtils
CONSTANT Focus
Trace == ndJsonDeserialize(IOEnv.TRACE_FILE)
VARIABLES l, cfg, answered, txs      \* txs: client transaction <<method, branch>> -> backend it was dispatched to
tvars == <<l, cfg, answered, txs>>
Put(f, k, v) == [x \in DOMAIN f \cup {k} |-> IF x = k THEN v ELSE f[x]]
Drop(f, k) == [x \in DOMAIN f \ {k} |-> f[x]]
MaxI(a, b) == IF a > b THEN a ELSE b
MinI(a, b) == IF a < b THEN a ELSE b
\* the dialog timeout in microseconds (capped like every time value of the trace): given by the bench, or - for a service
\* started from YAML - computed from the configuration as written
TimeoutUs == IF "T" \in DOMAIN cfg THEN cfg.T ELSE 1000000 * MinI(1000, MaxI(0, EffTimeout(cfg.timeout_cfg)))

FromE(m) == m.hdrs[FirstPos(m.hdrs, "from")].ents[1]
ToE(m) == m.hdrs[FirstPos(m.hdrs, "to")].ents[1]
CallId(m) == m.hdrs[FirstPos(m.hdrs, "callid")].val
HasDlg(m) == /\ HasCls(m.hdrs, "from") /\ HasCls(m.hdrs, "to") /\ HasCls(m.hdrs, "callid")
             /\ HasParam(FromE(m).hparams, "tag") /\ HasParam(ToE(m).hparams, "tag")
Dlg(m) == LET f == <<TagOf(FromE(m)), DlgUri(FromE(m).uri)>>  t == <<TagOf(ToE(m)), DlgUri(ToE(m).uri)>>
          IN <<CallId(m), {f, t}, f = t>>
Backs == Range(cfg.backs)
SrcAddr(e) == e.src.ip \o ":" \o ToString(e.src.port)
SubState(m) == IF HasCls(m.hdrs, "substate") THEN m.hdrs[FirstPos(m.hdrs, "substate")].val ELSE ""
Dispatched(e) == Len(e.outs) = 1 /\ e.outs[1].kind = "backend"
\* the client transaction of a response: CSeq method + branch of its top Via (the proxy's own entry)
TxKey(m) == <<m.method, IF ViaStack(m) = <<>> THEN "" ELSE ParamOf(ViaStack(m)[1].params, "branch")>>
\* a response from an address that is no registered backend, attributed through the transaction binding (a mechanism
\* beneath the listed property - C04 quantifies over answers sent from the configured address: deviations are M:)
ViaTx(e) == e.inmsg.kind = "resp" /\ SrcAddr(e) \notin Backs /\ TxKey(e.inmsg) \in DOMAIN txs

\* the verdict on one step
Verdict(e) ==
    LET m == e.inmsg IN
    IF e.panic # "" THEN "P:" \o Focus \o ":panic"
    ELSE IF e.stuck THEN "P:" \o Focus \o ":message-loop-stalled"
    ELSE IF m.kind = "req" /\ Dispatched(e) /\ HasDlg(m) /\ Dlg(m) \in DOMAIN answered
    THEN LET a == answered[Dlg(m)]
             surelyAlive == e.t1 < a.lo + a.life
             surelyDead == e.t0 > a.hi + a.life
         IN IF a.maybe THEN ""
            ELSE IF a.viatx /\ a.b = "pool" THEN (IF surelyAlive /\ ~e.pooled THEN "M:request-of-a-dialog-released-by-an-answer-from-another-address-not-load-balanced" ELSE "")
            ELSE IF a.viatx THEN (IF surelyAlive /\ e.outs[1].addr # a.b THEN "M:request-of-a-dialog-attributed-through-the-transaction-binding-not-delivered-to-that-backend" ELSE "")
            ELSE IF surelyAlive /\ e.outs[1].addr # a.b
                 THEN (IF Focus = "C04" THEN "P:C04:in-dialog-request-not-delivered-to-the-answering-backend" ELSE "P:C15:pin-not-honoured-within-its-lifetime")
            ELSE IF Focus = "C15" /\ surelyDead /\ ~e.pooled THEN "P:C15:pin-honoured-after-its-lifetime-has-elapsed"
            ELSE ""
    ELSE IF m.kind = "req" /\ Dispatched(e) /\ ~e.pooled
    THEN (IF Focus = "C04" THEN "P:C04:request-of-no-known-dialog-not-load-balanced" ELSE "P:C15:request-of-a-dissolved-dialog-not-load-balanced")
    ELSE IF m.kind = "req" /\ e.mine /\ e.npool > 0 /\ ~Dispatched(e) THEN "P:" \o Focus \o ":request-for-the-service-not-delivered-to-exactly-one-backend"
    ELSE ""

\* how the step changes what is known about dialogs
Update(e) ==
    LET m == e.inmsg IN
    IF e.panic # "" \/ ~HasDlg(m) THEN answered
    ELSE IF m.kind = "resp" /\ m.method = "INVITE" /\ SrcAddr(e) \in Backs
    THEN Put(answered, Dlg(m), [b |-> SrcAddr(e), lo |-> e.t0, hi |-> e.t1, life |-> MaxI(TimeoutUs, e.expires), maybe |-> FALSE, viatx |-> FALSE])
    ELSE IF m.kind = "resp" /\ m.method = "INVITE" /\ ViaTx(e)
    THEN LET x == txs[TxKey(m)]                                   \* the binding lives like a pin: max(timeout, Expires of the request)
             rec == [b |-> x.b, lo |-> e.t0, hi |-> e.t1, life |-> MaxI(TimeoutUs, e.expires), maybe |-> FALSE, viatx |-> TRUE]
         IN IF e.t1 < x.lo + x.life                                                        \* surely still bound ...
            THEN Put(answered, Dlg(m), rec)     \* ... to the pinned backend the INVITE went through, or to the rotation ("pool": the dialog is
                                                \* released, Sticky.tla) - either way the listed property claims nothing more for it (viatx)
            ELSE IF e.t0 > x.hi + x.life THEN answered                                     \* surely lapsed: not attributed
            ELSE Put(answered, Dlg(m), [rec EXCEPT !.maybe = TRUE])                        \* neither: nothing is claimed for this dialog
    ELSE IF m.kind = "resp" /\ m.method = "INVITE" /\ Dlg(m) \in DOMAIN answered
    THEN [answered EXCEPT ![Dlg(m)].maybe = TRUE]      \* an answer from an unknown address without a live binding: what it does to an existing pin is not claimed
    ELSE IF m.kind = "resp" /\ m.method = "SUBSCRIBE" /\ Len(e.outs) = 1 /\ e.outs[1].addr \in Backs
    THEN Put(answered, Dlg(m), [b |-> e.outs[1].addr, lo |-> e.t0, hi |-> e.t1, life |-> MaxI(TimeoutUs, e.expires), maybe |-> FALSE, viatx |-> FALSE])
    ELSE IF m.kind = "resp" /\ m.method = "BYE" /\ SrcAddr(e) \in Backs THEN Drop(answered, Dlg(m))
    ELSE IF m.kind = "req" /\ m.method = "NOTIFY" /\ Dispatched(e) /\ Dlg(m) \in DOMAIN answered
    THEN (IF SubState(m) = "terminated" THEN Drop(answered, Dlg(m))
          ELSE IF e.substcls = "terminated-with-params" THEN [answered EXCEPT ![Dlg(m)].maybe = TRUE]    \* don't-care: may or may not dissolve
          ELSE answered)
    ELSE answered

\* the transaction bindings: every dispatch binds <<method, stamped branch>>; a final response from an unknown address consumes it
UpdateTx(e) ==
    LET m == e.inmsg IN
    IF e.panic # "" THEN txs
    ELSE IF m.kind = "req" /\ Dispatched(e) /\ "branch" \in DOMAIN e.outs[1]
    THEN Put(txs, <<m.method, e.outs[1].branch>>, [b |-> (IF e.pooled THEN "pool" ELSE e.outs[1].addr), lo |-> e.t0, hi |-> e.t1, life |-> MaxI(TimeoutUs, e.expires)])
    ELSE IF ViaTx(e) /\ m.status >= 200 THEN Drop(txs, TxKey(m))
    ELSE txs
TraceInit == l = 1 /\ cfg = [none |-> TRUE] /\ answered = <<>> /\ txs = <<>>
TraceNext ==
  /\ l <= Len(Trace) /\ l' = l + 1
  /\ LET e == Trace[l] IN
     IF e.ev = "reset" THEN cfg' = e.cfg /\ answered' = <<>> /\ txs' = <<>>
     ELSE /\ cfg' = cfg
          /\ answered' = Update(e)
          /\ txs' = UpdateTx(e)
          /\ LET v == Verdict(e) IN
             IF v = "" THEN TRUE
             ELSE IF SubSeq(v, 1, 2) = "M:" THEN PrintT("WARN|" \o ToString(l) \o "|" \o e.case \o "|" \o v \o "|" \o e.cls)
             ELSE PrintT("FAIL|" \o ToString(l) \o "|" \o e.case \o "|" \o v \o "|" \o e.cls)
TraceSpec == TraceInit /\ [][TraceNext]_tvars
Consumed == (l = Len(Trace) + 1) => PrintT("CONSUMED|" \o ToString(Len(Trace)))
=============================================================================
