------------------------------ MODULE PoolOps ------------------------------
(* Pure part of the Pool specification: the critical sections of            *)
(* RoundRobinBackend as operators on values, and the declarative predicates *)
(* of property C05 on histories.  Shared verbatim by Pool.tla (state        *)
(* machine, model checking) and Trace_Pool.tla (trace validation).          *)
EXTENDS Integers, Sequences, FiniteSets

Range(s) == {s[i] : i \in DOMAIN s}
NoDup(s) == \A i, j \in DOMAIN s : i # j => s[i] # s[j]

AddOp(l, a)    == Append(l, a)                          \* backend.go AddBackend
RemoveOp(l, a) == SelectSeq(l, LAMBDA x : x # a)        \* backend.go RemoveBackend (addresses are unique)
NextIdx(i, l)  == (i + 1) % Len(l)                      \* getNextBackendIndex, Len(l) > 0
GetAt(l, i)    == l[(i % Len(l)) + 1]                   \* getBackend, Len(l) > 0

\* A whole dispatch when nothing interleaves (sequential use).
SeqDispatch(l, i) ==
    IF l = <<>> THEN [ok |-> FALSE, idx |-> i, tgt |-> "err"]
    ELSE LET j == NextIdx(i, l) IN [ok |-> TRUE, idx |-> j, tgt |-> GetAt(l, j)]

\* between two membership changes any k consecutive dispatches over k backends are pairwise distinct
WindowOf(h, k) == \A i, j \in DOMAIN h : (i < j /\ j - i < k) => h[i] # h[j]
Cnt(h, a) == Cardinality({i \in DOMAIN h : h[i] = a})
\* after N dispatches every backend has received floor(N/k) or ceil(N/k)
BalanceOf(h, m) == \A a, b \in m : Cnt(h, a) <= Cnt(h, b) + 1
=============================================================================
