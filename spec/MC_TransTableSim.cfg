SPECIFICATION MCSpec
CONSTANTS
  Conns <- MCConns
  AddrOf <- MCAddrOf
  HopOf <- MCHopOf
  Dests <- MCDests
  Txs <- MCTxs
  Ticks <- MCTicks
  MaxTicks = 6
  MaxObj = 99
INVARIANTS EmitInv
