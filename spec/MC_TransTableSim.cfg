SPECIFICATION MCSpec
CONSTANTS
  Conns <- MCConns
  AddrOf <- MCAddrOf
  HopOf <- MCHopOf
  Dests <- MCDests
  Txs <- SimTxs
  Ticks <- SimTicks
  MaxTicks = 5
  MaxObj = 99
INVARIANTS EmitInv
