----------------------------- MODULE Trace_Codec -----------------------------
(* Trace validation for C14: one line per (AST, header kind).  conc is alpha  *)
(* of the text the concretiser rendered, re1 alpha of the text the real code  *)
(* re-encoded after decoding it, re2 the same after a second round; acc the   *)
(* accessor results of the real decoder.                                      *)
(*   decode-then-encode :  re1 = Norm(conc)     (Norm is built into ViaEq)    *)
(*   encode-decode-encode is a fixpoint :  re2 = re1                          *)
(*   decoding extracts exactly the components the text denotes                *)
(*   kind "viastamp": the decoded Via line after the proxy's own stamping of   *)
(*   its top entry (received / rport) - everything else re-encoded as received *)
(*   kind "afteruse": the same list text decoded a second time after the first  *)
(*   decoding had its top entry popped - still the whole list                   *)
EXTENDS ProxyOps, Json, IOUtils
Trace == ndJsonDeserialize(IOEnv.TRACE_FILE)
VARIABLE l
A(e, f) == IF f \in DOMAIN e.acc THEN e.acc[f] ELSE "<n/a>"
AccOK(e) ==
    LET c == e.conc[1] IN
    IF e.kind = "via"
    THEN /\ A(e, "host") = c.host /\ A(e, "port") = ViaPort(c) /\ A(e, "transport") = c.proto
         /\ A(e, "branch") = ParamOf(c.params, "branch")
         /\ A(e, "received") = ParamOf(c.params, "received")
         /\ A(e, "rport") = c.rport
    ELSE /\ (IsSip(c.uri) => (A(e, "host") = c.uri.host /\ A(e, "port") = UriPort(c.uri) /\ A(e, "transport") = UriTransport(c.uri) /\ A(e, "user") = c.uri.user))
         /\ (e.hdr \in {"From", "To"} => A(e, "tag") = ParamOf(c.hparams, "tag"))
Verdict(e) ==
    IF e.panic # "" THEN "P:C14:panic"
    ELSE IF e.err # "" THEN "P:C14:decoder-rejects-a-value-of-the-grammar"
    ELSE IF e.kind = "cseq"
    THEN IF e.enc1 # e.text THEN "P:C14:re-encoded-value-differs-from-the-received-one"
         ELSE IF e.enc2 # e.enc1 THEN "P:C14:encode-decode-encode-is-not-a-fixpoint"
         ELSE IF e.acc.seq # e.want.seq \/ e.acc.method # e.want.method THEN "P:C14:decoding-does-not-extract-what-the-text-denotes"
         ELSE ""
    ELSE IF e.kind = "afteruse"
    THEN IF (IF e.hdr = "Via" THEN ViaSeqEq(e.re1, e.conc) ELSE RtSeqEq(e.re1, e.conc)) THEN ""
         ELSE "P:C14:list-decoded-again-after-an-earlier-decoding-was-consumed-is-re-encoded-with-loss"
    ELSE IF e.kind = "viastamp"
    THEN LET p1 == SetParam(e.conc[1].params, "received", e.stamp.ip)
             p2 == IF HasParam(p1, "rport") THEN SetParam(p1, "rport", e.stamp.port) ELSE p1
         IN IF ~ViaSeqEq(e.re1, [e.conc EXCEPT ![1].params = p2]) THEN "P:C14:Via-entries-distorted-when-the-top-entry-is-stamped" ELSE ""
    ELSE IF e.kind = "via"
    THEN IF ~ViaSeqEq(e.re1, e.conc) THEN "P:C14:re-encoded-Via-differs-from-the-received-one"
         ELSE IF ~ViaSeqEq(e.re2, e.re1) THEN "P:C14:encode-decode-encode-is-not-a-fixpoint"
         ELSE IF ~AccOK(e) THEN "P:C14:decoding-does-not-extract-what-the-text-denotes"
         ELSE ""
    ELSE IF ~RtSeqEq(e.re1, e.conc) THEN "P:C14:re-encoded-value-differs-from-the-received-one"
         ELSE IF ~RtSeqEq(e.re2, e.re1) THEN "P:C14:encode-decode-encode-is-not-a-fixpoint"
         ELSE IF ~AccOK(e) THEN "P:C14:decoding-does-not-extract-what-the-text-denotes"
         ELSE ""
TraceInit == l = 1
TraceNext == /\ l <= Len(Trace) /\ l' = l + 1
             /\ LET e == Trace[l]  v == Verdict(e) IN
                  IF v # "" THEN PrintT("FAIL|" \o ToString(l) \o "|" \o e.case \o "|" \o v \o "|" \o e.cls) ELSE TRUE
TraceSpec == TraceInit /\ [][TraceNext]_l
Consumed == (l = Len(Trace) + 1) => PrintT("CONSUMED|" \o ToString(Len(Trace)))
=============================================================================
