SPECIFICATION ConcSpec
CONSTANTS
  Addrs = {"a1","a2","a3"}
  Threads = {"t1","t2"}
  MaxOps = 0
  MaxDisp = 4
  MaxChg = 4
VIEW ConcView
INVARIANTS TypeOK
PROPERTIES MemberAtLin DeliveredIsChosen
