SPECIFICATION TraceSpec
INVARIANT Consumed
