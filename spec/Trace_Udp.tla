------------------------------ MODULE Trace_Udp ------------------------------
(* Trace validation for C10: datagram sequences sent to a real               *)
(* UDPServerTransport on loopback.  Pool / receive / parse hook events carry  *)
(* buffer identities (OneHolder); one "dgram" line per datagram the proxy     *)
(* received says what the generator knows the datagram alone determines       *)
(* (deliver or discard, start line, headers, body) and what the recording     *)
(* handler got - serialised only after the whole burst, so that a message     *)
(* still aliasing a recycled buffer shows - with the PROVENANCE set of its    *)
(* body (every body byte encodes the datagram it was generated for).          *)
EXTENDS Integers, Sequences, FiniteSets, TLC, Json, IOUtils
Trace == ndJsonDeserialize(IOEnv.TRACE_FILE)
VARIABLES l, inflight
tvars == <<l, inflight>>
Range(q) == {q[i] : i \in DOMAIN q}
Verdict(e) ==
    CASE e.ev = "alloc" -> IF e.buf \in inflight THEN "P:C10:buffer-handed-out-while-still-in-flight" ELSE ""
      [] e.ev = "recv"  -> IF e.buf \in inflight THEN "P:C10:datagram-received-into-a-buffer-that-is-still-in-flight" ELSE ""
      [] e.ev = "free"  -> IF e.buf \notin inflight THEN "P:C10:buffer-freed-twice-or-never-allocated" ELSE ""
      [] e.ev = "dgram" ->
           IF e.panic # "" THEN "P:C10:panic"
           ELSE IF e.ngot > 1 THEN "P:C10:datagram-delivered-more-than-once"
           ELSE IF e.deliver /\ e.ngot = 0 THEN "P:C10:complete-datagram-not-delivered"
           ELSE IF ~e.deliver /\ e.ngot = 1 THEN
                  (IF ~(Range(e.prov) \subseteq {e.id}) THEN "P:C10:incomplete-datagram-completed-from-another-datagram" ELSE "P:C10:incomplete-datagram-not-discarded")
           ELSE IF e.ngot = 0 THEN ""
           ELSE IF ~(Range(e.prov) \subseteq {e.id}) THEN "P:C10:delivered-message-contains-bytes-of-another-datagram"
           ELSE IF e.got # e.want THEN "P:C10:delivered-message-is-not-what-the-datagram-alone-determines"
           ELSE ""
      [] OTHER -> ""
TraceInit == l = 1 /\ inflight = {}
TraceNext ==
  /\ l <= Len(Trace) /\ l' = l + 1
  /\ LET e == Trace[l] IN
     /\ inflight' = CASE e.ev = "reset" -> {}
                      [] e.ev = "recv" -> inflight \cup {e.buf}
                      [] e.ev = "free" -> inflight \ {e.buf}
                      [] OTHER -> inflight
     /\ LET v == Verdict(e) IN
        IF v # "" THEN PrintT("FAIL|" \o ToString(l) \o "|" \o e.case \o "|" \o v \o "|" \o e.cls) ELSE TRUE
TraceSpec == TraceInit /\ [][TraceNext]_tvars
Consumed == (l = Len(Trace) + 1) => PrintT("CONSUMED|" \o ToString(Len(Trace)))
=============================================================================
