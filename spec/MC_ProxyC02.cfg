SPECIFICATION Spec
CONSTANTS
  RouteFirst = {"-"}
  RouteRest = {"hop1"}
  MaxRoute = 1
  ViaLens = {1}
  RRLens = {0, 1}
  ToClasses = {"none"}
  RuriClasses = {"lit"}
  Keeps = {FALSE}
  LPorts = {5060, 5070}
  Pools = {"two"}
  Learns = {"none", "ua.p1real"}
  MustRRs = {FALSE}
  Recvs = {TRUE}
  HdrOrders = {"std", "from1st", "viaLast", "rr1st", "clenmid"}
  RportForms = {"none"}
  Kinds = {"resp"}
  RespVias = {"own", "plain", "noport", "received", "rcv.rport", "rportonly", "rportempty", "rpempty.noport", "tcp", "tls", "sctp", "deep3"}
  Statuses = {100, 183, 200, 302, 404, 503, 603}
INVARIANTS ReqOK RespOK
CONSTRAINT Emit
