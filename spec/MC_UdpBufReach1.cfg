SPECIFICATION Spec
CONSTANTS
  Seqs <- MCSeqs3
  BufSize = 4
  MaxBufs = 3
  Whole = FALSE
INVARIANTS Reach_StaleVisible
